//go:build verif

// Package verifclock is a controllable clock. bin/check builds lease / rtt code from overlay copies of the
// working-tree files in which time.Now() and time.Since() are replaced by verifclock.Now() / verifclock.Since().
package verifclock

import (
	"sync/atomic"
	"time"
)

var offset atomic.Int64 // nanoseconds added to a fixed base once Freeze was called
var frozen atomic.Bool
var base = time.Date(2030, 1, 1, 0, 0, 0, 0, time.UTC)

// Freeze switches from the wall clock to the virtual clock (starting at a fixed instant).
func Freeze() { frozen.Store(true) }

// Advance moves the virtual clock.
func Advance(d time.Duration) { offset.Add(int64(d)) }

// Reset puts the virtual clock back to its base.
func Reset() { offset.Store(0) }

func Now() time.Time {
	if !frozen.Load() {
		return time.Now()
	}
	return base.Add(time.Duration(offset.Load()))
}

func Since(t time.Time) time.Duration { return Now().Sub(t) }
