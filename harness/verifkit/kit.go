//go:build verif

// Package verifkit is injected into /repo at build time (go build -overlay) by /verif/bin/check.
// It is never committed to the repository.
package verifkit

import (
	"bufio"
	"encoding/json"
	"fmt"
	"math/rand"
	"os"
	"strconv"
	"sync"
)

var (
	outMu sync.Mutex
	out   = bufio.NewWriterSize(os.Stdout, 1<<20)
)

// Emit writes one ndjson record to stdout.
func Emit(v any) {
	b, err := json.Marshal(v)
	if err != nil {
		panic(err)
	}
	outMu.Lock()
	out.Write(b)
	out.WriteByte('\n')
	outMu.Unlock()
}

// Flush must be called before exit.
func Flush() {
	outMu.Lock()
	out.Flush()
	outMu.Unlock()
}

// Answer reports the observation for case i.
func Answer(i int, o any) {
	Emit(map[string]any{"i": i, "o": o})
}

// EachCase reads ndjson cases from stdin and calls fn(i, raw) for each.
func EachCase(fn func(i int, raw json.RawMessage)) {
	sc := bufio.NewScanner(os.Stdin)
	sc.Buffer(make([]byte, 1<<20), 1<<28)
	i := 0
	for sc.Scan() {
		line := sc.Bytes()
		if len(line) == 0 {
			continue
		}
		cp := make([]byte, len(line))
		copy(cp, line)
		fn(i, cp)
		i++
	}
	Flush()
}

// Decode is a helper for case records.
func Decode[T any](raw json.RawMessage) T {
	var v T
	if err := json.Unmarshal(raw, &v); err != nil {
		fmt.Fprintf(os.Stderr, "bad case %s: %v\n", string(raw), err)
		Flush()
		os.Exit(3)
	}
	return v
}

// Seed returns VERIF_SEED (default 1).
func Seed() int64 {
	s, err := strconv.ParseInt(os.Getenv("VERIF_SEED"), 10, 64)
	if err != nil {
		return 1
	}
	return s
}

// Rand returns a seeded generator, offset distinguishes streams.
func Rand(offset int64) *rand.Rand {
	return rand.New(rand.NewSource(Seed()*7919 + offset))
}

// Recover runs fn and reports a panic as a string ("" if none).
func Recover(fn func()) (p string) {
	defer func() {
		if r := recover(); r != nil {
			p = fmt.Sprint(r)
		}
	}()
	fn()
	return ""
}
