//go:build verif

// Driver for Router.tla (C42): every TLC-enumerated registration table is installed into a real
// transport.StreamRouter whose chord and tunnel transports are channel-backed stubs; every incoming
// (source, type, target) stream is pushed through the channel and the driver records which handler
// received it or whether the router closed it.
package main

import (
	"context"
	"encoding/json"
	"fmt"
	"hash/fnv"
	"math/rand"
	"net"
	"os"
	"runtime"
	"strconv"
	"sync"
	"sync/atomic"
	"time"

	"go.miragespace.co/specter/internal/verifkit"
	"go.miragespace.co/specter/spec/protocol"
	"go.miragespace.co/specter/spec/transport"

	"go.uber.org/zap"
)

type stubTransport struct {
	ch chan *transport.StreamDelegate
}

func (s *stubTransport) Identity() *protocol.Node { return &protocol.Node{Id: 1, Address: "stub"} }
func (s *stubTransport) DialStream(context.Context, *protocol.Node, protocol.Stream_Type) (net.Conn, error) {
	return nil, fmt.Errorf("stub")
}
func (s *stubTransport) AcceptStream() <-chan *transport.StreamDelegate    { return s.ch }
func (s *stubTransport) ListConnected() []transport.ConnectedPeer          { return nil }
func (s *stubTransport) SupportDatagram() bool                             { return false }
func (s *stubTransport) ReceiveDatagram() <-chan *transport.DatagramDelegate { return nil }
func (s *stubTransport) SendDatagram(*protocol.Node, []byte) error         { return fmt.Errorf("stub") }

type stubConn struct {
	net.Conn // nil: the router must not touch the bytes
	closed   chan struct{}
	once     sync.Once
	isClosed atomic.Bool
}

func (c *stubConn) Close() error {
	c.once.Do(func() { c.isClosed.Store(true); close(c.closed) })
	return nil
}

type hit struct {
	label     []any
	d         *transport.StreamDelegate
	wasClosed bool
}

type incoming struct {
	Src    string `json:"src"`
	Kind   int    `json:"kind"`
	Target int    `json:"target"`
	H      []any  `json:"h"`
	Note   string `json:"note,omitempty"`
}

var slow atomic.Int32

func patience() time.Duration {
	if slow.Load() > 3 {
		return 100 * time.Millisecond // a defect was already observed; do not wait seconds for each further stream
	}
	return 3 * time.Second
}

func main() {
	nTypes, _ := strconv.Atoi(os.Args[1])
	nTargets, _ := strconv.Atoi(os.Args[2])
	seed := verifkit.Seed()
	logger := zap.NewNop()
	verifkit.EachCase(func(i int, raw json.RawMessage) {
		c := verifkit.Decode[struct {
			Virt [][2]int
			Phys []int
			Tun  []int
		}](raw)
		h := fnv.New32a()
		h.Write(raw) // seeded choices depend on the case itself, not on its position: a replayed case repeats them
		r := rand.New(rand.NewSource(seed*1000003 + int64(h.Sum32())))
		// real node ids of the model targets 1..nTargets+1 (distinct, 48 bit)
		ids := map[int]uint64{}
		used := map[uint64]bool{}
		for t := 1; t <= nTargets+1; t++ {
			for {
				v := r.Uint64() & (1<<48 - 1)
				if r.Intn(4) == 0 {
					v = uint64(r.Intn(4)) // small ids, including 0
				}
				if !used[v] {
					used[v] = true
					ids[t] = v
					break
				}
			}
		}
		// targets nTargets+2 .. : ids outside the 48-bit identifier space that share their low 48 bits with target t
		// (index nTargets+1+(m-1)*nTargets+t carries m<<48 | id of t, m = 1..3): nobody registered for them
		for m := 1; m <= 3; m++ {
			for t := 1; t <= nTargets; t++ {
				ids[nTargets+1+(m-1)*nTargets+t] = uint64(m)<<48 | ids[t]
			}
		}
		chordT := &stubTransport{ch: make(chan *transport.StreamDelegate)}
		tunT := &stubTransport{ch: make(chan *transport.StreamDelegate)}
		router := transport.NewStreamRouter(logger, chordT, tunT)
		hits := make(chan hit, 8)
		mk := func(label ...any) transport.StreamHandler {
			return func(d *transport.StreamDelegate) {
				sc, _ := d.Conn.(*stubConn)
				hits <- hit{label: label, d: d, wasClosed: sc != nil && sc.isClosed.Load()}
			}
		}
		// registrations in a seeded order
		var regs []func()
		for _, vt := range c.Virt {
			k, t := vt[0], vt[1]
			regs = append(regs, func() {
				router.HandleChord(protocol.Stream_Type(k), &protocol.Node{Id: ids[t], Address: fmt.Sprintf("10.0.0.%d:443", t)}, mk("v", k, t))
			})
		}
		for _, k := range c.Phys {
			k := k
			regs = append(regs, func() { router.HandleChord(protocol.Stream_Type(k), nil, mk("p", k)) })
		}
		for _, k := range c.Tun {
			k := k
			regs = append(regs, func() { router.HandleTunnel(protocol.Stream_Type(k), mk("t", k)) })
		}
		r.Shuffle(len(regs), func(a, b int) { regs[a], regs[b] = regs[b], regs[a] })
		for _, f := range regs {
			f()
		}
		ctx, cancel := context.WithCancel(context.Background())
		router.Accept(ctx)

		var inc []incoming
		for k := 1; k <= nTypes+1; k++ { // nTypes+1: a stream type nobody registers
			for t := 1; t <= 4*nTargets+1; t++ {
				inc = append(inc, incoming{Src: "chord", Kind: k, Target: t})
			}
		}
		for k := 1; k <= nTypes+1; k++ {
			inc = append(inc, incoming{Src: "tunnel", Kind: k, Target: nTargets + 1})
		}
		order := r.Perm(len(inc))
		for _, x := range order {
			in := &inc[x]
			if slow.Load() > 12 {
				// a dozen streams were neither handled nor closed: the defect is recorded, do not wait for thousands more
				in.H = []any{"skipped"}
				continue
			}
			sc := &stubConn{closed: make(chan struct{})}
			idt := in.Target
			if in.Src == "tunnel" {
				idt = 1 + r.Intn(nTargets+1) // the peer's id may coincide with a registered virtual node: must not matter
			}
			d := &transport.StreamDelegate{
				Conn:     sc,
				Identity: &protocol.Node{Id: ids[idt], Address: "192.0.2.1:1000"},
				Kind:     protocol.Stream_Type(in.Kind),
			}
			ch := chordT.ch
			if in.Src == "tunnel" {
				ch = tunT.ch
			}
			tm := time.NewTimer(patience())
			select {
			case ch <- d:
			case <-tm.C:
				in.H = []any{"not-accepted"}
				slow.Add(1)
				continue
			}
			select {
			case h := <-hits:
				in.H = h.label
				if h.d != d {
					in.Note = "handler received a different stream"
				} else if h.wasClosed {
					in.Note = "stream was closed before the handler ran"
				}
			case <-sc.closed:
				in.H = []any{"closed"}
				// a handler must not run for a stream the router closed
				runtime.Gosched()
				select {
				case h := <-hits:
					in.Note = fmt.Sprintf("closed and also handled by %v", h.label)
				default:
				}
			case <-tm.C:
				in.H = []any{"none"} // neither handled nor closed
				slow.Add(1)
			}
			tm.Stop()
		}
		cancel()
		verifkit.Answer(i, inc)
	})
}
