//go:build verif

// Driver for KVStore.tla (C16, C17, C19): runs operation sequences on the memory, append-only-log and SQLite backends.
package main

import (
	"encoding/hex"
	"context"
	"encoding/json"
	"fmt"
	"os"
	"path/filepath"
	"sort"
	"strings"
	"time"

	"go.miragespace.co/specter/internal/verifkit"
	"go.miragespace.co/specter/internal/verifkit/verifclock"
	"go.miragespace.co/specter/kv/aof"
	"go.miragespace.co/specter/kv/memory"
	"go.miragespace.co/specter/kv/sqlite3"
	"go.miragespace.co/specter/spec/chord"
	"go.miragespace.co/specter/spec/protocol"

	"go.uber.org/zap"
)

type Op struct {
	M    string   `json:"m"`
	K    int      `json:"k"`
	V    string   `json:"v"`
	C    string   `json:"c"`
	P    []string `json:"p"`
	Lo   uint64   `json:"lo"`
	Hi   uint64   `json:"hi"`
	Ks   []int    `json:"ks"`
	TTL  int      `json:"ttl"`
	Tok  string   `json:"tok"`
	D    int      `json:"d"`
	Into string   `json:"into"`
}

type Case struct {
	Backend string     `json:"backend"`
	Keys    [][]string `json:"keys"`
	HashOf  []uint64   `json:"hashof"`
	Real    bool       `json:"realhash"` // use chord.Hash instead of the rank hash
	Ops     []Op       `json:"ops"`
	// Alphabet: the letters of the key names are stored as these bytes (hex); empty: as themselves
	Alphabet map[string]string `json:"alphabet"`
}

// conc: the bytes a key name (letters) is stored as
func (r *runner) conc(letters []string) []byte {
	if len(r.c.Alphabet) == 0 {
		return []byte(strings.Join(letters, ""))
	}
	out := []byte{}
	for _, l := range letters {
		h, ok := r.c.Alphabet[l]
		if !ok {
			panic("letter outside the alphabet: " + l)
		}
		b, err := hex.DecodeString(h)
		if err != nil {
			panic(err)
		}
		out = append(out, b...)
	}
	return out
}

// abs: the key name of stored bytes (for keys of the case), else the bytes in hex
func (r *runner) abs(b []byte) string {
	if len(r.c.Alphabet) == 0 {
		return string(b)
	}
	if i, ok := r.name[string(b)]; ok {
		return strings.Join(r.c.Keys[i], "")
	}
	return "?" + hex.EncodeToString(b)
}

const step = uint64(1) << 40

type store struct {
	kv    chord.KVProvider
	close func()
}

var tmpRoot string
var nStore int

func open(backend string, hf chord.HashFn) store {
	nStore++
	dir := filepath.Join(tmpRoot, fmt.Sprintf("s%d", nStore))
	switch backend {
	case "memory":
		return store{memory.WithHashFn(hf), func() {}}
	case "aof":
		os.MkdirAll(dir, 0o755)
		a, err := aof.New(aof.Config{Logger: zap.NewNop(), HasnFn: hf, DataDir: dir, FlushInterval: time.Second})
		if err != nil {
			panic(err)
		}
		go a.Start()
		return store{a, func() { a.Stop(); os.RemoveAll(dir) }}
	case "sqlite":
		os.MkdirAll(dir, 0o755)
		s, err := sqlite3.New(sqlite3.Config{Logger: zap.NewNop(), HashFn: hf, DataDir: dir})
		if err != nil {
			panic(err)
		}
		return store{s, func() { s.Close(); os.RemoveAll(dir) }}
	}
	panic("backend " + backend)
}

func errName(err error) string {
	switch {
	case err == nil:
		return "ok"
	case err == chord.ErrKVPrefixConflict:
		return "prefix-conflict"
	case err == chord.ErrKVSimpleConflict:
		return "simple-conflict"
	case err == chord.ErrKVLeaseConflict:
		return "lease-conflict"
	case err == chord.ErrKVLeaseExpired:
		return "lease-expired"
	case err == chord.ErrKVLeaseInvalidTTL:
		return "invalid-ttl"
	}
	return "error:" + err.Error()
}

func sortedStrs(in [][]byte) []string {
	out := make([]string, 0, len(in))
	for _, b := range in {
		out = append(out, string(b))
	}
	sort.Strings(out)
	return out
}

type runner struct {
	c      Case
	keys   [][]byte
	name   map[string]int
	s      store
	tokens []uint64 // every token granted so far (lease family: one lease)
	tokOf  map[int][]uint64 // per key
	dsts   map[string]store
	ctx    context.Context
}

func (r *runner) hash(b []byte) uint64 {
	if r.c.Real {
		return chord.Hash(b)
	}
	if i, ok := r.name[string(b)]; ok {
		return r.c.HashOf[i] * step
	}
	return 0
}

// projection of the store into the abstract state
func (r *runner) proj(kv chord.KVProvider) map[string]any {
	simple := make([]string, len(r.keys))
	kids := make([][]string, len(r.keys))
	lease := make([]bool, len(r.keys))
	for i, k := range r.keys {
		v, _ := kv.Get(r.ctx, k)
		simple[i] = string(v)
		ch, _ := kv.PrefixList(r.ctx, k)
		kids[i] = sortedStrs(ch)
	}
	ex, err := kv.Export(r.ctx, r.keys)
	if err == nil {
		for i := range r.keys {
			lease[i] = ex[i].GetLeaseToken() != 0
		}
	}
	return map[string]any{"simple": simple, "kids": kids, "lease": lease}
}

// dest returns an EMPTY store of the given backend, reusing the previous one when it is verifiably empty
func (r *runner) dest(into string) store {
	if d, ok := r.dsts[into]; ok {
		left, err := d.kv.RangeKeys(r.ctx, 0, 0)
		if err == nil && len(left) == 0 {
			return d
		}
		d.close()
	}
	if r.dsts == nil {
		r.dsts = map[string]store{}
	}
	d := open(into, r.hash)
	r.dsts[into] = d
	return d
}

func (r *runner) token(sym string) uint64 {
	switch sym {
	case "cur":
		if len(r.tokens) > 0 {
			return r.tokens[len(r.tokens)-1]
		}
		return 4242
	case "stale": // the most recent earlier grant whose token differs from the current one
		if n := len(r.tokens); n > 1 {
			for j := n - 2; j >= 0; j-- {
				if r.tokens[j] != r.tokens[n-1] {
					return r.tokens[j]
				}
			}
		}
		return 4243
	case "forged":
		return 987654321
	}
	return 0
}

func (r *runner) do(op Op) map[string]any {
	kv := r.s.kv
	var key []byte
	if op.K >= 1 && op.K <= len(r.keys) {
		key = r.keys[op.K-1]
	}
	switch op.M {
	case "put":
		return map[string]any{"e": errName(kv.Put(r.ctx, key, []byte(op.V)))}
	case "get":
		v, err := kv.Get(r.ctx, key)
		return map[string]any{"e": errName(err), "v": string(v)}
	case "delete":
		return map[string]any{"e": errName(kv.Delete(r.ctx, key))}
	case "append":
		return map[string]any{"e": errName(kv.PrefixAppend(r.ctx, key, []byte(op.C)))}
	case "remove":
		return map[string]any{"e": errName(kv.PrefixRemove(r.ctx, key, []byte(op.C)))}
	case "contains":
		b, err := kv.PrefixContains(r.ctx, key, []byte(op.C))
		return map[string]any{"e": errName(err), "b": b}
	case "list":
		l, err := kv.PrefixList(r.ctx, key)
		return map[string]any{"e": errName(err), "l": sortedStrs(l)}
	case "listkeys":
		ks, err := kv.ListKeys(r.ctx, r.conc(op.P))
		out := [][]string{}
		for _, k := range ks {
			out = append(out, []string{r.abs(k.GetKey()), k.GetType().String()})
		}
		sort.Slice(out, func(i, j int) bool { return out[i][0]+out[i][1] < out[j][0]+out[j][1] })
		return map[string]any{"e": errName(err), "ks": out}
	case "rangekeys":
		ks, err := kv.RangeKeys(r.ctx, op.Lo*step, op.Hi*step)
		names := make([][]byte, len(ks))
		for i, k := range ks {
			names[i] = []byte(r.abs(k))
		}
		return map[string]any{"e": errName(err), "ks": sortedStrs(names)}
	case "removekeys":
		var ks [][]byte
		for _, i := range op.Ks {
			ks = append(ks, r.keys[i-1])
		}
		return map[string]any{"e": errName(kv.RemoveKeys(r.ctx, ks))}
	case "xfer":
		var ks [][]byte
		for _, i := range op.Ks {
			ks = append(ks, r.keys[i-1])
		}
		vals, err := kv.Export(r.ctx, ks)
		if err != nil {
			return map[string]any{"e": errName(err)}
		}
		res := map[string]any{"e": "ok"}
		for _, into := range []string{"memory", "aof", "sqlite"} {
			dst := r.dest(into)
			// export again for every destination: the append-only-log backend recycles the transfer objects it was handed
			vals, err = kv.Export(r.ctx, ks)
			if err != nil {
				return map[string]any{"e": errName(err)}
			}
			if len(ks) > 0 {
				if err := dst.kv.Import(r.ctx, ks, vals); err != nil {
					res["e"] = "import-" + into + ":" + err.Error()
				}
			}
			p := r.proj(dst.kv)
			ex2, _ := dst.kv.Export(r.ctx, r.keys)
			toks := make([]bool, len(r.keys))
			src, _ := kv.Export(r.ctx, r.keys)
			for i := range r.keys {
				toks[i] = ex2[i].GetLeaseToken() == src[i].GetLeaseToken() || !contains(op.Ks, i+1)
			}
			p["tokens_equal"] = toks
			lk, _ := dst.kv.RangeKeys(r.ctx, 0, 0)
			for i, k := range lk {
				lk[i] = []byte(r.abs(k))
			}
			p["listed"] = sortedStrs(lk)
			res[into] = p
			// empty the destination again for the next transfer (verified empty before reuse)
			dst.kv.RemoveKeys(r.ctx, r.keys)
		}
		return res
	case "tick":
		verifclock.Advance(time.Duration(op.D) * 500 * time.Millisecond)
		return map[string]any{"e": "ok"}
	case "acquire":
		tok, err := kv.Acquire(r.ctx, key, time.Duration(op.TTL)*500*time.Millisecond)
		if err == nil {
			r.tokens = append(r.tokens, tok)
			if r.tokOf == nil {
				r.tokOf = map[int][]uint64{}
			}
			r.tokOf[op.K] = append(r.tokOf[op.K], tok)
			return map[string]any{"e": "ok", "tok": "new"}
		}
		return map[string]any{"e": errName(err)}
	case "renew":
		tok, err := kv.Renew(r.ctx, key, time.Duration(op.TTL)*500*time.Millisecond, r.token(op.Tok))
		if err == nil {
			r.tokens = append(r.tokens, tok)
			if r.tokOf == nil {
				r.tokOf = map[int][]uint64{}
			}
			r.tokOf[op.K] = append(r.tokOf[op.K], tok)
			return map[string]any{"e": "ok", "tok": "new"}
		}
		return map[string]any{"e": errName(err)}
	case "release":
		tok := r.token(op.Tok)
		if l := r.tokOf[op.K]; op.Tok == "cur" && len(l) > 0 {
			tok = l[len(l)-1] // per-key bookkeeping (range family: several leases)
		}
		return map[string]any{"e": errName(kv.Release(r.ctx, key, tok))}
	}
	panic("op " + op.M)
}

func contains(l []int, x int) bool {
	for _, v := range l {
		if v == x {
			return true
		}
	}
	return false
}

var _ = protocol.KeyComposite_SIMPLE

func main() {
	var err error
	tmpRoot, err = os.MkdirTemp("", "verif-kv-")
	if err != nil {
		panic(err)
	}
	defer os.RemoveAll(tmpRoot)
	cache := os.Getenv("VERIF_WAZERO_CACHE")
	if cache == "" {
		cache = filepath.Join(os.TempDir(), "verif-wazero-cache")
	}
	os.MkdirAll(cache, 0o755)
	if err := sqlite3.Initialize(cache); err != nil {
		panic(err)
	}
	if len(os.Args) > 1 && os.Args[1] == "clock" {
		verifclock.Freeze()
	}
	verifkit.EachCase(func(i int, raw json.RawMessage) {
		c := verifkit.Decode[Case](raw)
		r := &runner{c: c, name: map[string]int{}, ctx: context.Background()}
		for j, k := range c.Keys {
			kb := r.conc(k)
			r.keys = append(r.keys, kb)
			r.name[string(kb)] = j
		}
		verifclock.Reset()
		var out []map[string]any
		p := verifkit.Recover(func() {
			r.s = open(c.Backend, r.hash)
			defer r.s.close()
			defer func() {
				for _, d := range r.dsts {
					d.close()
				}
			}()
			for _, op := range c.Ops {
				res := r.do(op)
				out = append(out, map[string]any{"ret": res, "st": r.proj(r.s.kv)})
			}
		})
		verifkit.Answer(i, map[string]any{"steps": out, "panic": p})
	})
	os.RemoveAll(tmpRoot)
}
