//go:build verif

package main

import (
	"bytes"
	"context"
	"crypto/ecdsa"
	"crypto/ed25519"
	"crypto/elliptic"
	"crypto/rand"
	"crypto/tls"
	"crypto/x509"
	"crypto/x509/pkix"
	"encoding/hex"
	"errors"
	"fmt"
	"math/big"
	"net"
	"sort"
	"strings"
	"sync"
	"sync/atomic"
	"time"

	"go.miragespace.co/specter/kv/memory"
	"go.miragespace.co/specter/spec/acme"
	"go.miragespace.co/specter/spec/chord"
	"go.miragespace.co/specter/spec/cipher"
	"go.miragespace.co/specter/spec/pki"
	"go.miragespace.co/specter/spec/pow"
	"go.miragespace.co/specter/spec/protocol"
	"go.miragespace.co/specter/spec/rpc"
	"go.miragespace.co/specter/spec/transport"
	"go.miragespace.co/specter/spec/tun"
	"go.miragespace.co/specter/tun/server"
	"go.miragespace.co/specter/util/bufconn"

	"go.uber.org/zap"
)

const (
	apexDomain = "tunnel.example.net"
	acmeZone   = "acme.example.net"
)

// ---------------------------------------------------------------------------------------------
// the DHT as the tunnel server sees it: a chord.VNode whose KV part is the real kv/memory store,
// with a recorder for mutating operations.  The store can be swapped (one fresh store per case).

type mutation struct {
	Op  string `json:"op"`
	Key string `json:"key"`
}

type fakeNode struct {
	chord.VNode // unimplemented parts (membership): nil, never reached by the tunnel server
	ident       *protocol.Node
	mu          sync.Mutex
	kv          *memory.MemoryKV
	succ        []chord.VNode
	succErr     error
	muts        []mutation
	racer       *racer
	faultKey    string
	faultErr    error
	delFaultKey string
	delFaultErr error
}

// setGetFault: Get of exactly this key fails with err until cleared (the owner of the key is unavailable)
func (n *fakeNode) setGetFault(key string, err error) {
	n.mu.Lock()
	n.faultKey, n.faultErr = key, err
	n.mu.Unlock()
}

func (n *fakeNode) setRacer(g *racer) {
	n.mu.Lock()
	n.racer = g
	n.mu.Unlock()
}

// gate: operations of a request marked for the race family pass the racer (main.go); everything else runs straight through
func (n *fakeNode) gate(ctx context.Context, op string, key []byte) func(res string) {
	n.mu.Lock()
	g := n.racer
	n.mu.Unlock()
	tag, _ := ctx.Value(raceTag{}).(int)
	if g == nil || tag == 0 {
		return func(string) {}
	}
	return g.enter(tag, op, key)
}

func resOf(err error) string {
	if err == nil {
		return "ok"
	}
	if errors.Is(err, chord.ErrKVLeaseConflict) {
		return "conflict"
	}
	return "err:" + err.Error()
}

func (n *fakeNode) store() *memory.MemoryKV {
	n.mu.Lock()
	defer n.mu.Unlock()
	return n.kv
}

func (n *fakeNode) reset() {
	n.mu.Lock()
	n.kv = memory.WithHashFn(chord.Hash)
	n.muts = nil
	n.mu.Unlock()
}

func (n *fakeNode) log(op string, key []byte) {
	n.mu.Lock()
	n.muts = append(n.muts, mutation{op, string(key)})
	n.mu.Unlock()
}

func (n *fakeNode) takeMuts() []mutation {
	n.mu.Lock()
	defer n.mu.Unlock()
	m := n.muts
	n.muts = nil
	return m
}

func (n *fakeNode) ID() uint64               { return n.ident.GetId() }
func (n *fakeNode) Identity() *protocol.Node { return n.ident }
func (n *fakeNode) Ping() error              { return nil }
func (n *fakeNode) GetSuccessors() ([]chord.VNode, error) {
	n.mu.Lock()
	defer n.mu.Unlock()
	return n.succ, n.succErr
}

func (n *fakeNode) Put(ctx context.Context, key, value []byte) error {
	n.log("Put", key)
	done := n.gate(ctx, "Put", key)
	err := n.store().Put(ctx, key, value)
	done(resOf(err))
	return err
}
func (n *fakeNode) Get(ctx context.Context, key []byte) ([]byte, error) {
	n.mu.Lock()
	fk, fe := n.faultKey, n.faultErr
	n.mu.Unlock()
	if fe != nil && fk == string(key) {
		return nil, fe
	}
	done := n.gate(ctx, "Get", key)
	v, err := n.store().Get(ctx, key)
	done(resOf(err))
	return v, err
}
// setDelFault: Delete of exactly this key fails with err until cleared (the ring node that owns the key cannot be reached)
func (n *fakeNode) setDelFault(key string, err error) {
	n.mu.Lock()
	n.delFaultKey, n.delFaultErr = key, err
	n.mu.Unlock()
}

func (n *fakeNode) Delete(ctx context.Context, key []byte) error {
	n.mu.Lock()
	dk, de := n.delFaultKey, n.delFaultErr
	n.mu.Unlock()
	if de != nil && dk == string(key) {
		return de
	}
	n.log("Delete", key)
	done := n.gate(ctx, "Delete", key)
	err := n.store().Delete(ctx, key)
	done(resOf(err))
	return err
}
func (n *fakeNode) PrefixAppend(ctx context.Context, prefix, child []byte) error {
	n.log("PrefixAppend", prefix)
	return n.store().PrefixAppend(ctx, prefix, child)
}
func (n *fakeNode) PrefixList(ctx context.Context, prefix []byte) ([][]byte, error) {
	return n.store().PrefixList(ctx, prefix)
}
func (n *fakeNode) PrefixContains(ctx context.Context, prefix, child []byte) (bool, error) {
	done := n.gate(ctx, "PrefixContains", prefix)
	b, err := n.store().PrefixContains(ctx, prefix, child)
	if err == nil {
		done(fmt.Sprint(b))
	} else {
		done(resOf(err))
	}
	return b, err
}
func (n *fakeNode) PrefixRemove(ctx context.Context, prefix, child []byte) error {
	n.log("PrefixRemove", prefix)
	done := n.gate(ctx, "PrefixRemove", prefix)
	err := n.store().PrefixRemove(ctx, prefix, child)
	done(resOf(err))
	return err
}
func (n *fakeNode) Acquire(ctx context.Context, lease []byte, ttl time.Duration) (uint64, error) {
	n.log("Acquire", lease)
	done := n.gate(ctx, "Acquire", lease)
	t, err := n.store().Acquire(ctx, lease, ttl)
	done(resOf(err))
	return t, err
}
func (n *fakeNode) Renew(ctx context.Context, lease []byte, ttl time.Duration, prev uint64) (uint64, error) {
	n.log("Renew", lease)
	return n.store().Renew(ctx, lease, ttl, prev)
}
func (n *fakeNode) Release(ctx context.Context, lease []byte, token uint64) error {
	n.log("Release", lease)
	done := n.gate(ctx, "Release", lease)
	err := n.store().Release(ctx, lease, token)
	done(resOf(err))
	return err
}
func (n *fakeNode) Import(ctx context.Context, keys [][]byte, values []*protocol.KVTransfer) error {
	n.log("Import", nil)
	return n.store().Import(ctx, keys, values)
}
func (n *fakeNode) ListKeys(ctx context.Context, prefix []byte) ([]*protocol.KeyComposite, error) {
	return n.store().ListKeys(ctx, prefix)
}

// snapshot of the logical content of the store: key -> rendering of (value, children, lease held)
func (n *fakeNode) snapshot() map[string]string {
	ctx := context.Background()
	kv := n.store()
	comps, _ := kv.ListKeys(ctx, nil)
	seen := map[string]bool{}
	out := map[string]string{}
	now := uint64(time.Now().UnixNano())
	for _, c := range comps {
		k := string(c.GetKey())
		if seen[k] {
			continue
		}
		seen[k] = true
		vals, _ := kv.Export(ctx, [][]byte{c.GetKey()})
		v := vals[0]
		kids := make([]string, 0, len(v.GetPrefixChildren()))
		for _, ch := range v.GetPrefixChildren() {
			kids = append(kids, string(ch))
		}
		sort.Strings(kids)
		held := v.GetLeaseToken() > now
		if len(v.GetSimpleValue()) == 0 && len(kids) == 0 && !held {
			continue
		}
		out[k] = fmt.Sprintf("v=%s|kids=%s|held=%v", hex.EncodeToString(v.GetSimpleValue()), strings.Join(kids, ","), held)
	}
	return out
}

func diffSnap(a, b map[string]string) []string {
	var d []string
	for k, v := range a {
		if w, ok := b[k]; !ok {
			d = append(d, "removed "+k)
		} else if w != v {
			d = append(d, "changed "+k)
		}
	}
	for k := range b {
		if _, ok := a[k]; !ok {
			d = append(d, "added "+k)
		}
	}
	sort.Strings(d)
	return d
}

// ---------------------------------------------------------------------------------------------
// the tunnel transport: what a connecting client looks like is decided per dial by cur

type caller struct {
	cert     *x509.Certificate // verified certificate (nil: none)
	claimed  *protocol.Node    // identity the peer claims (delegate.Identity)
	noDgram  bool              // SendDatagram fails (client not connected)
	describe string
}

type addrConn struct {
	net.Conn
	remote net.Addr
}

func (c *addrConn) RemoteAddr() net.Addr { return c.remote }

type drvTransport struct {
	ident  *protocol.Node
	accept chan *transport.StreamDelegate
	mu     sync.Mutex
	cur    caller
	seq    atomic.Uint32
}

var _ transport.Transport = (*drvTransport)(nil)

func (t *drvTransport) setCaller(c caller) {
	t.mu.Lock()
	t.cur = c
	t.mu.Unlock()
}

func (t *drvTransport) Identity() *protocol.Node { return t.ident }

func (t *drvTransport) DialStream(ctx context.Context, peer *protocol.Node, kind protocol.Stream_Type) (net.Conn, error) {
	c1, c2 := bufconn.BufferedPipe(8192)
	t.mu.Lock()
	cur := t.cur
	t.mu.Unlock()
	// one address per connection: the RPC endpoint is rate limited per remote IP (10/s)
	s := t.seq.Add(1)
	remote := &net.TCPAddr{IP: net.IPv4(10, byte(s>>16), byte(s>>8), byte(s)), Port: 40000}
	claimed := cur.claimed
	if claimed == nil {
		claimed = &protocol.Node{Unknown: true}
	}
	d := &transport.StreamDelegate{
		Conn:        &addrConn{Conn: c1, remote: remote},
		Identity:    claimed,
		Kind:        kind,
		Certificate: cur.cert,
	}
	select {
	case t.accept <- d:
	case <-ctx.Done():
		return nil, ctx.Err()
	}
	return c2, nil
}

func (t *drvTransport) AcceptStream() <-chan *transport.StreamDelegate { return t.accept }
func (t *drvTransport) ListConnected() []transport.ConnectedPeer       { return nil }
func (t *drvTransport) SupportDatagram() bool                          { return true }
func (t *drvTransport) ReceiveDatagram() <-chan *transport.DatagramDelegate {
	return nil
}
func (t *drvTransport) SendDatagram(*protocol.Node, []byte) error {
	t.mu.Lock()
	defer t.mu.Unlock()
	if t.cur.noDgram {
		return fmt.Errorf("not connected")
	}
	return nil
}

// ---------------------------------------------------------------------------------------------

type resolver struct {
	mu sync.Mutex
	m  map[string]string
}

func (r *resolver) LookupCNAME(ctx context.Context, host string) (string, error) {
	r.mu.Lock()
	defer r.mu.Unlock()
	if v, ok := r.m[host]; ok {
		return v, nil
	}
	return "", fmt.Errorf("no such host %s", host)
}

type certs struct {
	cert *tls.Certificate
}

var _ cipher.CertProvider = (*certs)(nil)

func (c *certs) Initialize(context.Context) error { return nil }
func (c *certs) GetCertificate(*tls.ClientHelloInfo) (*tls.Certificate, error) {
	return c.cert, nil
}
func (c *certs) GetCertificateWithContext(context.Context, *tls.ClientHelloInfo) (*tls.Certificate, error) {
	return c.cert, nil
}
func (c *certs) OnHandshake(cipher.OnHandshakeFunc) {}

func must[T any](v T, err error) T {
	if err != nil {
		panic(err)
	}
	return v
}

func makeServingCert() *tls.Certificate {
	key := must(ecdsa.GenerateKey(elliptic.P256(), rand.Reader))
	tpl := &x509.Certificate{
		SerialNumber: big.NewInt(7),
		Subject:      pkix.Name{CommonName: "keyless stub"},
		NotBefore:    time.Now().Add(-time.Hour),
		NotAfter:     time.Now().Add(24 * time.Hour),
		DNSNames:     []string{"*.customer-site.org"},
	}
	der := must(x509.CreateCertificate(rand.Reader, tpl, tpl, &key.PublicKey, key))
	return &tls.Certificate{Certificate: [][]byte{der}, PrivateKey: key, Leaf: must(x509.ParseCertificate(der))}
}

// ---------------------------------------------------------------------------------------------

type srvRec struct {
	Sym    string
	Chord  *protocol.Node
	Tunnel *protocol.Node
}

func (s *srvRec) destination() []byte {
	return must((&protocol.TunnelDestination{Chord: s.Chord, Tunnel: s.Tunnel}).MarshalVT())
}

type client struct {
	Name     string
	ID       uint64
	Token    string // what ExtractCertificateIdentity yields as token
	CN       string
	Cert     *x509.Certificate
	Verified *protocol.Node
}

type world struct {
	ctx    context.Context
	node   *fakeNode
	tp     *drvTransport
	srv    *server.Server
	cli    rpc.TunnelClient
	tp2    *drvTransport    // a second edge node over the same ring store: clients are connected to several and may call any of them
	srv2   *server.Server
	stop   context.CancelFunc
	cli2   rpc.TunnelClient
	res    *resolver
	ca     tls.Certificate
	self   *srvRec
	certMu sync.Mutex
	certBy map[string]*x509.Certificate
	powKey ed25519.PrivateKey
	proofs map[string]*proofEntry
}

type proofEntry struct {
	p  *protocol.ProofOfWork
	at time.Time
}

func makeCA() tls.Certificate {
	pub, priv := must2(ed25519.GenerateKey(rand.Reader))
	tpl := &x509.Certificate{
		SerialNumber:          big.NewInt(1),
		Subject:               pkix.Name{CommonName: "verif ca"},
		NotBefore:             time.Now().Add(-time.Hour),
		NotAfter:              time.Now().Add(24 * time.Hour),
		IsCA:                  true,
		KeyUsage:              x509.KeyUsageDigitalSignature | x509.KeyUsageCertSign,
		BasicConstraintsValid: true,
	}
	der := must(x509.CreateCertificate(rand.Reader, tpl, tpl, pub, priv))
	return tls.Certificate{Certificate: [][]byte{der}, PrivateKey: priv}
}

func must2[A, B any](a A, b B, err error) (A, B) {
	if err != nil {
		panic(err)
	}
	return a, b
}

// certFor issues (through the repository's own pki.GenerateCertificate) a client certificate with the
// given common name; what makes it "verified" is the transport (mTLS), which is not under test here
func (w *world) certFor(cn string) *x509.Certificate {
	w.certMu.Lock()
	defer w.certMu.Unlock()
	if c, ok := w.certBy[cn]; ok {
		return c
	}
	pub, _ := must2(ed25519.GenerateKey(rand.Reader))
	der := must(pki.GenerateCertificate(zap.NewNop(), w.ca, pki.IdentityRequest{
		Subject:   pkix.Name{CommonName: cn},
		PublicKey: pub,
	}))
	c := must(x509.ParseCertificate(der))
	w.certBy[cn] = c
	return c
}

func (w *world) v1Client(name string, id uint64, token string) *client {
	cn := pki.MakeSubjectV1(id, token).CommonName
	return &client{Name: name, ID: id, Token: token, CN: cn, Cert: w.certFor(cn),
		Verified: &protocol.Node{Id: id, Address: token, Rendezvous: true}}
}

func (w *world) v2Client(name string, id uint64, hash []byte) *client {
	cn := pki.MakeSubjectV2(id, hash).CommonName
	return &client{Name: name, ID: id, Token: cn, CN: cn, Cert: w.certFor(cn),
		Verified: &protocol.Node{Id: id, Address: cn, Rendezvous: true}}
}

func (c *client) tok() *protocol.ClientToken { return &protocol.ClientToken{Token: []byte(c.Token)} }

func newWorld() *world {
	ctx := context.Background()
	w := &world{ctx: ctx, certBy: map[string]*x509.Certificate{}, proofs: map[string]*proofEntry{}}
	w.ca = makeCA()
	_, w.powKey = must2(ed25519.GenerateKey(rand.Reader))
	w.self = &srvRec{Sym: "a1",
		Chord:  &protocol.Node{Id: 1 << 40, Address: "chord-a1.internal:7946"},
		Tunnel: &protocol.Node{Id: 900001, Address: "tun-a1.example.net:443"}}
	w.node = &fakeNode{ident: w.self.Chord}
	w.node.reset()
	w.res = &resolver{m: map[string]string{}}
	w.startServers()
	return w
}

// startServers (re)creates the two edge nodes over the ring store of w.node: everything a server keeps in memory starts empty
func (w *world) startServers() {
	if w.stop != nil {
		w.stop()
	}
	sctx, stop := context.WithCancel(w.ctx)
	w.stop = stop
	w.tp = &drvTransport{ident: w.self.Tunnel, accept: make(chan *transport.StreamDelegate, 16)}
	chordTp := &drvTransport{ident: w.self.Chord, accept: make(chan *transport.StreamDelegate, 1)}
	w.srv = server.New(server.Config{
		Logger:          zap.NewNop(),
		ParentContext:   sctx,
		Chord:           chord.WrapRetryKV(w.node, 5*time.Millisecond, 3), // as cmd/server wires it
		TunnelTransport: w.tp,
		ChordTransport:  chordTp,
		Resolver:        w.res,
		CertProvider:    &certs{cert: makeServingCert()},
		Apex:            apexDomain,
		Acme:            acmeZone,
	})
	router := transport.NewStreamRouter(zap.NewNop(), nil, w.tp)
	go router.Accept(sctx)
	w.srv.AttachRouter(sctx, router)
	w.cli = rpc.DynamicTunnelClient(rpc.DisablePooling(w.ctx), w.tp)
	// the second edge node (identities of a2; its destination records are written by the histories that need them)
	w.tp2 = &drvTransport{ident: &protocol.Node{Id: 900002, Address: "tun-a2.example.net:443"}, accept: make(chan *transport.StreamDelegate, 16)}
	chordTp2 := &drvTransport{ident: &protocol.Node{Id: 2 << 40, Address: "chord-a2.internal:7946"}, accept: make(chan *transport.StreamDelegate, 1)}
	w.srv2 = server.New(server.Config{
		Logger:          zap.NewNop(),
		ParentContext:   sctx,
		Chord:           chord.WrapRetryKV(w.node, 5*time.Millisecond, 3),
		TunnelTransport: w.tp2,
		ChordTransport:  chordTp2,
		Resolver:        w.res,
		CertProvider:    &certs{cert: makeServingCert()},
		Apex:            apexDomain,
		Acme:            acmeZone,
	})
	router2 := transport.NewStreamRouter(zap.NewNop(), nil, w.tp2)
	go router2.Accept(sctx)
	w.srv2.AttachRouter(sctx, router2)
	w.cli2 = rpc.DynamicTunnelClient(rpc.DisablePooling(w.ctx), w.tp2)
}

// fresh store with the asked server's own destination records published by the server itself
func (w *world) freshStore() {
	w.node.reset()
	w.srv.MustRegister(w.ctx)
	w.node.takeMuts()
}

func (w *world) putDestination(s *srvRec, byChord, byTunnel bool) {
	kv := w.node.store()
	if byChord {
		kv.Put(w.ctx, []byte(tun.DestinationByChordKey(s.Chord)), s.destination())
	}
	if byTunnel {
		kv.Put(w.ctx, []byte(tun.DestinationByTunnelKey(s.Tunnel)), s.destination())
	}
}

func (w *world) registerDirect(c *client, oldFormat bool) {
	n := c.Verified
	if oldFormat {
		n = &protocol.Node{Id: c.ID}
	}
	w.node.store().Put(w.ctx, []byte(tun.ClientTokenKey(c.tok())), must(n.MarshalVT()))
}

func (w *world) proof(hostname string) *protocol.ProofOfWork {
	if e, ok := w.proofs[hostname]; ok && time.Since(e.at) < 5*time.Second {
		return e.p
	}
	p := must(pow.GenerateSolution(w.powKey, pow.Parameters{
		Difficulty: acme.HashcashDifficulty,
		Expires:    acme.HashcashExpires,
		GetSubject: func(ed25519.PublicKey) string { return hostname },
	}))
	w.proofs[hostname] = &proofEntry{p: p, at: time.Now()}
	return p
}

func (w *world) dnsOK(hostname string, c *client) {
	name, content := acme.GenerateCustomRecord(hostname, acmeZone, []byte(c.Token))
	w.res.mu.Lock()
	w.res.m[name] = content
	w.res.mu.Unlock()
}

// callCtx is the context of a client-side call through the real twirp client
func (w *world) callCtx() (context.Context, context.CancelFunc) {
	ctx, cancel := context.WithTimeout(w.ctx, 20*time.Second)
	return rpc.WithNode(ctx, w.self.Tunnel), cancel
}

func sameNode(a, b *protocol.Node) bool {
	return a.GetId() == b.GetId() && a.GetAddress() == b.GetAddress() && a.GetRendezvous() == b.GetRendezvous() &&
		a.GetUnknown() == b.GetUnknown()
}

var _ = bytes.Equal
