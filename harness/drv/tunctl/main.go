//go:build verif

// Driver for TunnelCtl.tla (C25, C26, C51): runs the real tun/server.Server (real twirp server reached through
// the real rpc.DynamicTunnelClient over an in-memory transport, real handlers, real kv/memory store behind a
// recording chord.VNode) on the cases / behaviours the specification generates.
//
//	tunctl list                      service methods found by reflection
//	tunctl gating    < cases         C25: one call per case on a freshly populated store
//	tunctl getnodes [direct] < cases C51
//	tunctl publish   < walks         C26: step-by-step histories, DHT content projected after every step
package main

import (
	"context"
	"encoding/json"
	"errors"
	"fmt"
	"hash/fnv"
	"math/rand"
	"os"
	"reflect"
	"sort"
	"sync"
	"strings"
	"time"

	"go.miragespace.co/specter/internal/verifkit"
	"go.miragespace.co/specter/spec/chord"
	"go.miragespace.co/specter/spec/pki"
	"go.miragespace.co/specter/spec/protocol"
	"go.miragespace.co/specter/spec/rpc"
	"go.miragespace.co/specter/spec/transport"
	"go.miragespace.co/specter/spec/tun"

	"github.com/twitchtv/twirp"
)

var services = map[string]reflect.Type{
	"TunnelService":  reflect.TypeOf((*protocol.TunnelService)(nil)).Elem(),
	"KeylessService": reflect.TypeOf((*protocol.KeylessService)(nil)).Elem(),
}

type methodRec struct {
	Svc  string `json:"svc"`
	Name string `json:"name"`
}

func listMethods() []methodRec {
	var out []methodRec
	for _, svc := range []string{"TunnelService", "KeylessService"} {
		t := services[svc]
		for i := 0; i < t.NumMethod(); i++ {
			out = append(out, methodRec{svc, t.Method(i).Name})
		}
	}
	return out
}

func reqType(svc, name string) reflect.Type {
	m, ok := services[svc].MethodByName(name)
	if !ok {
		panic("no method " + svc + "." + name)
	}
	return m.Type.In(1).Elem() // (ctx, *Req) -> Req
}

// invoke calls svc.name either through the real twirp client (the request crosses the stream router, the
// http server, the twirp hooks) or, for the no-delegation class, on the handler with a bare context
func (w *world) invoke(svc, name string, direct bool, ctx context.Context, req reflect.Value) (resp any, err error, panicked string) {
	var fn reflect.Value
	if direct {
		fn = reflect.ValueOf(w.srv).MethodByName(name)
	} else {
		fn = reflect.ValueOf(w.cli).Elem().FieldByName(svc).MethodByName(name)
	}
	if !fn.IsValid() {
		panic("cannot resolve " + svc + "." + name)
	}
	panicked = verifkit.Recover(func() {
		out := fn.Call([]reflect.Value{reflect.ValueOf(ctx), req})
		resp = out[0].Interface()
		if e, ok := out[1].Interface().(error); ok && e != nil {
			err = e
		}
	})
	return
}

func errCode(err error, panicked string) string {
	if panicked != "" {
		return "panic"
	}
	if err == nil {
		return "ok"
	}
	if te, ok := err.(twirp.Error); ok {
		return string(te.Code())
	}
	return "error"
}

// ---------------------------------------------------------------------------------------------
// request bodies by reflection over the generated request structs

const junkAlphabet = "abcdefghijklmnopqrstuvwxyzABCDEFGHIJKLMNOPQRSTUVWXYZ0123456789-._/:*% \x00\xc3\xa9"

func junkString(r *rand.Rand, max int) string {
	n := r.Intn(max + 1)
	b := make([]byte, n)
	for i := range b {
		b[i] = junkAlphabet[r.Intn(len(junkAlphabet))]
	}
	return strings.ToValidUTF8(string(b), "?")
}

type bodyParams struct {
	class    string
	tunHost  string // hostname for requests without a proof (tunnel management)
	acmeHost string // hostname for requests carrying a proof (acme / keyless)
	servers  []*protocol.Node
	proof    func(host string) *protocol.ProofOfWork
	r        *rand.Rand
}

func fillBody(v reflect.Value, p *bodyParams, depth int) {
	t := v.Type()
	_, hasProof := t.FieldByName("Proof")
	for i := 0; i < t.NumField(); i++ {
		f := t.Field(i)
		if !f.IsExported() {
			continue
		}
		fv := v.Field(i)
		victim := p.class == "victim" || p.class == "self" || p.class == "big"
		switch fv.Kind() {
		case reflect.String:
			switch {
			case p.class == "big":
				fv.SetString(strings.Repeat("a", 1500) + ".customer-site.org")
			case victim && hasProof:
				fv.SetString(p.acmeHost)
			case victim:
				fv.SetString(p.tunHost)
			default:
				fv.SetString(junkString(p.r, 40))
			}
		case reflect.Bool:
			fv.SetBool(p.r.Intn(2) == 0)
		case reflect.Int32, reflect.Int64, reflect.Int:
			if victim {
				fv.SetInt(1)
			} else {
				fv.SetInt(int64(p.r.Intn(7)) - 1)
			}
		case reflect.Uint32, reflect.Uint64, reflect.Uint:
			fv.SetUint(uint64(p.r.Intn(1000)))
		case reflect.Slice:
			et := f.Type.Elem()
			switch {
			case et.Kind() == reflect.Uint8: // bytes
				n := 32
				if !victim {
					n = p.r.Intn(70)
				}
				b := make([]byte, n)
				p.r.Read(b)
				fv.SetBytes(b)
			case et == reflect.TypeOf((*protocol.Node)(nil)):
				if victim {
					fv.Set(reflect.ValueOf(p.servers))
				} else {
					var l []*protocol.Node
					for k := p.r.Intn(5); k > 0; k-- {
						l = append(l, &protocol.Node{Id: p.r.Uint64(), Address: junkString(p.r, 30), Rendezvous: p.r.Intn(2) == 0})
					}
					fv.Set(reflect.ValueOf(l))
				}
			case et.Kind() == reflect.String:
				var l []string
				for k := p.r.Intn(4); k > 0; k-- {
					l = append(l, junkString(p.r, 30))
				}
				fv.Set(reflect.ValueOf(l))
			case et.Kind() == reflect.Ptr && et.Elem().Kind() == reflect.Struct && depth < 3:
				l := reflect.MakeSlice(f.Type, 0, 2)
				for k := p.r.Intn(3); k > 0; k-- {
					e := reflect.New(et.Elem())
					fillBody(e.Elem(), p, depth+1)
					l = reflect.Append(l, e)
				}
				fv.Set(l)
			}
		case reflect.Ptr:
			if f.Type == reflect.TypeOf((*protocol.ProofOfWork)(nil)) {
				if victim {
					host := p.acmeHost
					fv.Set(reflect.ValueOf(p.proof(host)))
				} else if p.r.Intn(3) > 0 {
					pw := &protocol.ProofOfWork{PubKey: make([]byte, 32), Signature: make([]byte, 64), Solution: junkString(p.r, 60)}
					p.r.Read(pw.PubKey)
					p.r.Read(pw.Signature)
					fv.Set(reflect.ValueOf(pw))
				}
			} else if f.Type.Elem().Kind() == reflect.Struct && depth < 3 {
				e := reflect.New(f.Type.Elem())
				fillBody(e.Elem(), p, depth+1)
				fv.Set(e)
			}
		}
	}
}

// ---------------------------------------------------------------------------------------------
// C25

const (
	victimHost   = "brisk-otter-quiet-lamp-seven"
	victimCustom = "shop.customer-site.org"
)

type gatingCase struct {
	M    methodRec
	Cls  string
	Body  string
	Fault string // what the DHT does to the lookup of the caller's client record: none | retry | fatal
	V     int    // which concrete subject / claimed identity of the class (added by the check)
}

type gatingObs struct {
	Refused   bool       `json:"refused"`
	Code      string     `json:"code"`
	Msg       string     `json:"msg,omitempty"`
	KVChanged bool       `json:"kvChanged"`
	Diff      []string   `json:"diff,omitempty"`
	Muts      []mutation `json:"muts,omitempty"`
	Caller    string     `json:"caller"`
}

func pick(v int, l ...string) string { return l[v%len(l)] }

func panicFree(fn func()) bool { return verifkit.Recover(fn) == "" }

func caseRand(raw []byte) *rand.Rand {
	h := fnv.New64a()
	h.Write(raw)
	return verifkit.Rand(int64(h.Sum64() >> 8))
}

func runGating(w *world) {
	V := w.v1Client("V", 1001, "tokV-5f2c")
	O := w.v1Client("O", 1002, "tokO-91ab")
	W := w.v2Client("W", 1003, []byte("0123456789abcdef0123456789abcdef"))
	a2 := &srvRec{Sym: "a2", Chord: &protocol.Node{Id: 2 << 40, Address: "chord-a2.internal:7946"},
		Tunnel: &protocol.Node{Id: 900002, Address: "tun-a2.example.net:443"}}
	verifkit.EachCase(func(i int, raw json.RawMessage) {
		c := verifkit.Decode[gatingCase](raw)
		r := caseRand(raw) // junk bodies depend on the case and the seed only, so a replayed case sees the same request
		// the store a refused call must not touch
		w.freshStore()
		w.putDestination(a2, true, true)
		w.registerDirect(V, false)
		w.registerDirect(O, true)
		w.registerDirect(W, false)
		kv := w.node.store()
		kv.PrefixAppend(w.ctx, []byte(tun.ClientHostnamesPrefix(V.tok())), []byte(victimHost))
		kv.PrefixAppend(w.ctx, []byte(tun.ClientHostnamesPrefix(V.tok())), []byte(victimCustom))
		route := &protocol.TunnelRoute{ClientDestination: V.Verified, ChordDestination: w.self.Chord, TunnelDestination: w.self.Tunnel, Hostname: victimHost}
		kv.Put(w.ctx, []byte(tun.RoutingKey(victimHost, 1)), must(route.MarshalVT()))
		tun.SaveCustomHostname(w.ctx, kv, victimCustom, &protocol.CustomHostname{ClientIdentity: V.Verified, ClientToken: V.tok()})
		w.node.mu.Lock()
		w.node.succ = []chord.VNode{w.node}
		w.node.mu.Unlock()

		var cl caller
		direct := false
		cn := ""
		switch c.Cls {
		case "nodeleg":
			direct = true
		case "nocert":
		case "mal_parts":
			cn = pick(c.V, "garbage-without-separators", "", V.Token, "v1")
		case "mal_two":
			cn = pick(c.V, "v1:1001", "v2:1001", ":"+V.Token)
		case "mal_ver":
			cn = pick(c.V, "v9:1001:"+V.Token, "V1:1001:"+V.Token, ":1001:"+V.Token, "v3:1003:"+W.Token, " v1:1001:"+V.Token)
		case "mal_id":
			cn = pick(c.V, "v1:abc:"+V.Token, "v1:-1:"+V.Token, "v1::"+V.Token, "v1:18446744073709551616:"+V.Token, "v2:0x10:whatever")
		case "unreg_v1":
			cn = "v1:1001:" + pick(c.V, "never-registered-token", V.Token+"x", V.Token[:len(V.Token)-1], strings.ToUpper(V.Token), V.Token+" ")
		case "unreg_v2":
			cn = pick(c.V, "v2:1003:bmV2ZXItcmVnaXN0ZXJlZA==", "v2:1001:"+V.Token, W.CN+"=", "v2:1004:"+W.CN[8:])
		case "unreg_empty":
			cn = pick(c.V, "v1:1001:", "v1:0:")
		case "reg_v1":
			cn = V.CN
		case "reg_old":
			cn = O.CN
		case "reg_v2":
			cn = W.CN
		default:
			panic("class " + c.Cls)
		}
		if c.Cls != "nodeleg" && c.Cls != "nocert" {
			cl.cert = w.certFor(cn)
		}
		// entries the store attributes to the caller's own token (body class "self"); for a token that was never
		// registered these are stale entries without a client record
		tunHost, acmeHost := victimHost, victimCustom
		if c.Body == "self" && cl.cert != nil {
			var (
				id   *pki.Identity
				ierr error
			)
			if panicFree(func() { id, ierr = pki.ExtractCertificateIdentity(cl.cert) }) && ierr == nil && id != nil {
				tok := &protocol.ClientToken{Token: id.Token}
				tunHost = "own-host-of-" + strings.ReplaceAll(c.Cls, "_", "-")
				acmeHost = "own-" + strings.ReplaceAll(c.Cls, "_", "-") + ".customer-site.org"
				kv.PrefixAppend(w.ctx, []byte(tun.ClientHostnamesPrefix(tok)), []byte(tunHost))
				kv.PrefixAppend(w.ctx, []byte(tun.ClientHostnamesPrefix(tok)), []byte(acmeHost))
				tun.SaveCustomHostname(w.ctx, kv, acmeHost, &protocol.CustomHostname{ClientIdentity: id.NodeIdentity(), ClientToken: tok})
			}
		}
		switch (c.V / 2) % 3 { // what the peer claims to be is not what decides
		case 0:
			cl.claimed = V.Verified
		case 1:
			cl.claimed = &protocol.Node{Id: 31337, Address: "someone:1", Rendezvous: true}
		}
		cl.describe = fmt.Sprintf("%s cn=%q", c.Cls, cn)
		w.tp.setCaller(cl)

		req := reflect.New(reqType(c.M.Svc, c.M.Name))
		fillBody(req.Elem(), &bodyParams{class: c.Body, tunHost: tunHost, acmeHost: acmeHost,
			servers: []*protocol.Node{w.self.Tunnel, a2.Tunnel}, proof: w.proof, r: r}, 0)
		w.dnsOK(victimCustom, V)

		if c.Fault != "" && c.Fault != "none" && cl.cert != nil {
			var id *pki.Identity
			var ierr error
			if panicFree(func() { id, ierr = pki.ExtractCertificateIdentity(cl.cert) }) && ierr == nil && id != nil {
				ferr := error(chord.ErrKVStaleOwnership)
				if c.Fault == "retry" && c.V%2 == 1 {
					ferr = chord.ErrKVPendingTransfer
				}
				if c.Fault == "fatal" {
					ferr = errors.New("verif: storage failure")
				}
				w.node.setGetFault(tun.ClientTokenKey(&protocol.ClientToken{Token: id.Token}), ferr)
			}
		}
		before := w.node.snapshot()
		w.node.takeMuts()
		var (
			err      error
			panicked string
		)
		if direct {
			_, err, panicked = w.invoke(c.M.Svc, c.M.Name, true, context.Background(), req)
		} else {
			ctx, cancel := w.callCtx()
			_, err, panicked = w.invoke(c.M.Svc, c.M.Name, false, ctx, req)
			cancel()
		}
		w.node.setGetFault("", nil)
		after := w.node.snapshot()
		diff := diffSnap(before, after)
		o := gatingObs{Refused: err != nil || panicked != "", Code: errCode(err, panicked), KVChanged: len(diff) > 0,
			Diff: diff, Muts: w.node.takeMuts(), Caller: cl.describe}
		if err != nil {
			o.Msg = err.Error()
			if len(o.Msg) > 160 {
				o.Msg = o.Msg[:160]
			}
		}
		if panicked != "" {
			o.Msg = panicked
		}
		verifkit.Answer(i, o)
	})
}

// ---------------------------------------------------------------------------------------------
// C51

type ringStub struct {
	chord.VNode
	ident *protocol.Node
}

func (s *ringStub) ID() uint64               { return s.ident.GetId() }
func (s *ringStub) Identity() *protocol.Node { return s.ident }

type getNodesCase struct {
	Succ    [][2]uint64
	Missing []int
}

type getNodesObs struct {
	Ok    bool   `json:"ok"`
	Code  string `json:"code"`
	Nodes []int  `json:"nodes"`
	Via   string `json:"via"`
}

func runGetNodes(w *world, mode string) {
	V := w.v1Client("V", 1001, "tokV-5f2c")
	phys := map[int]*srvRec{1: w.self}
	for k := 2; k <= 4; k++ {
		phys[k] = &srvRec{Sym: fmt.Sprintf("a%d", k),
			Chord:  &protocol.Node{Id: uint64(k) << 40, Address: fmt.Sprintf("chord-a%d.internal:7946", k)},
			Tunnel: &protocol.Node{Id: uint64(900000 + k), Address: fmt.Sprintf("tun-a%d.example.net:443", k)}}
	}
	verifkit.EachCase(func(i int, raw json.RawMessage) {
		c := verifkit.Decode[getNodesCase](raw)
		w.freshStore() // the asked server publishes its own records
		w.registerDirect(V, false)
		miss := map[int]bool{}
		for _, m := range c.Missing {
			miss[m] = true
		}
		kv := w.node.store()
		for k := 1; k <= 4; k++ {
			switch {
			case !miss[k]:
				w.putDestination(phys[k], true, true)
			case (i+k)%2 == 0: // missing = never published / deleted ...
				kv.Delete(w.ctx, []byte(tun.DestinationByChordKey(phys[k].Chord)))
			default: // ... or emptied
				kv.Put(w.ctx, []byte(tun.DestinationByChordKey(phys[k].Chord)), []byte{})
			}
		}
		succ := make([]chord.VNode, len(c.Succ))
		for k, p := range c.Succ {
			if p[0] == 0 && p[1] == 0 {
				succ[k] = nil
				continue
			}
			// a virtual node: its own id, the chord address of its physical node
			succ[k] = &ringStub{ident: &protocol.Node{Id: p[0]<<40 + 17, Address: phys[int(p[1])].Chord.GetAddress()}}
		}
		w.node.mu.Lock()
		w.node.succ = succ
		w.node.mu.Unlock()

		cl := caller{cert: V.Cert, claimed: V.Verified}
		w.tp.setCaller(cl)
		var (
			resp *protocol.GetNodesResponse
			err  error
		)
		via := mode
		if mode == "mixed" {
			via = "rpc"
			if i%4 != 0 {
				via = "direct"
			}
		}
		if via == "direct" {
			d := &transport.StreamDelegate{Identity: V.Verified, Certificate: V.Cert, Kind: protocol.Stream_RPC}
			resp, err = w.srv.GetNodes(rpc.WithDelegation(w.ctx, d), &protocol.GetNodesRequest{})
		} else {
			ctx, cancel := w.callCtx()
			resp, err = w.cli.GetNodes(ctx, &protocol.GetNodesRequest{})
			cancel()
		}
		o := getNodesObs{Ok: err == nil, Code: errCode(err, ""), Nodes: []int{}, Via: via}
		if err == nil {
			for _, n := range resp.GetNodes() {
				which := 0
				for k := 1; k <= 4; k++ {
					if sameNode(n, phys[k].Tunnel) {
						which = k
					}
				}
				o.Nodes = append(o.Nodes, which)
			}
		}
		verifkit.Answer(i, o)
	})
}

// ---------------------------------------------------------------------------------------------
// C26

type call struct {
	Op      string   `json:"op"`
	C       string   `json:"c"`
	H       string   `json:"h"`
	Servers []string `json:"servers"`
	Spoof   string   `json:"spoof,omitempty"` // identity the peer claims: none (its own) | other (the other client's) | junk
	Via     int      `json:"via,omitempty"`   // the edge node called: 1 | 2 (0: drawn by the driver)
	DelFail int      `json:"delfail,omitempty"` // > 0: while this request runs the route slot of that number of its hostname cannot be deleted (its ring node is unreachable)
}

type walk struct {
	Steps []call
}

type routeP struct {
	Client string `json:"client"`
	Server string `json:"server"`
}

type stateP struct {
	Hostnames map[string][]string `json:"hostnames"`
	Routes    map[string][]routeP `json:"routes"`
	Extra     map[string]int      `json:"extra"`
	Custom    map[string]string   `json:"custom"`
	Held      map[string]bool     `json:"held"`
	Other     []string            `json:"other,omitempty"` // keys of the store the projection does not account for
}

type stepObs struct {
	Call  call    `json:"call"`
	Ok    bool    `json:"ok"`
	Code  string  `json:"code"`
	Msg   string  `json:"msg,omitempty"`
	Spoof string  `json:"spoof"`
	Post  *stateP `json:"post,omitempty"` // omitted when identical to the previous state
	Real  string  `json:"real,omitempty"` // hostname used on the wire
	Via   int     `json:"via,omitempty"`  // the edge node that was called (1 | 2): the ring store is the same
}

type walkObs struct {
	Init  *stateP   `json:"init"`
	Steps []stepObs `json:"steps"`
}

var hostNames = []string{"g1", "g2", "x1"}

type pubWorld struct {
	w       *world
	clients map[string]*client
	srv     map[string]*srvRec // by address symbol a1..a5
	nodes   map[string]*protocol.Node
	real    map[string]string // abstract hostname -> hostname on the wire
	leases  map[string]uint64
}

func (p *pubWorld) project() *stateP {
	w := p.w
	kv := w.node.store()
	s := &stateP{Hostnames: map[string][]string{}, Routes: map[string][]routeP{}, Extra: map[string]int{},
		Custom: map[string]string{}, Held: map[string]bool{}}
	known := map[string]bool{}
	abstract := map[string]string{}
	for a, r := range p.real {
		abstract[r] = a
	}
	now := uint64(time.Now().UnixNano())
	for name, c := range p.clients {
		prefix := tun.ClientHostnamesPrefix(c.tok())
		kids, _ := kv.PrefixList(w.ctx, []byte(prefix))
		l := []string{}
		for _, k := range kids {
			if a, ok := abstract[string(k)]; ok {
				l = append(l, a)
			} else {
				l = append(l, "?"+string(k))
			}
		}
		sort.Strings(l)
		s.Hostnames[name] = l
		known[prefix] = true
		known[tun.ClientTokenKey(c.tok())] = true
		lk := tun.ClientLeaseKey(c.tok())
		known[lk] = true
		vals, _ := kv.Export(w.ctx, [][]byte{[]byte(lk)})
		s.Held[name] = vals[0].GetLeaseToken() > now
	}
	whoClient := func(n *protocol.Node) string {
		for name, c := range p.clients {
			if sameNode(n, c.Verified) {
				return name
			}
		}
		return "?"
	}
	for _, h := range hostNames {
		real := p.real[h]
		slots := make([]routeP, 3)
		for i := 1; i <= 6; i++ {
			key := tun.RoutingKey(real, i)
			known[key] = true
			val, _ := kv.Get(w.ctx, []byte(key))
			rp := routeP{"none", "none"}
			if len(val) > 0 {
				rp = routeP{"?", "?"}
				rt := &protocol.TunnelRoute{}
				if err := rt.UnmarshalVT(val); err == nil {
					rp.Client = whoClient(rt.GetClientDestination())
					for sym, sr := range p.srv {
						if sameNode(rt.GetTunnelDestination(), sr.Tunnel) && sameNode(rt.GetChordDestination(), sr.Chord) {
							rp.Server = sym
						}
					}
				}
			}
			if i <= 3 {
				slots[i-1] = rp
			} else if rp.Client != "none" {
				s.Extra[h]++
			}
		}
		s.Routes[h] = slots
		if _, ok := s.Extra[h]; !ok {
			s.Extra[h] = 0
		}
		ck := tun.CustomHostnameKey(real)
		known[ck] = true
		s.Custom[h] = "none"
		if b, err := tun.FindCustomHostname(w.ctx, kv, real); err == nil {
			s.Custom[h] = "?"
			for name, c := range p.clients {
				if sameNode(b.GetClientIdentity(), c.Verified) && string(b.GetClientToken().GetToken()) == c.Token {
					s.Custom[h] = name
				}
			}
		} else if err != tun.ErrHostnameNotFound {
			s.Custom[h] = "?"
		}
	}
	for _, sr := range p.srv {
		known[tun.DestinationByChordKey(sr.Chord)] = true
		known[tun.DestinationByTunnelKey(sr.Tunnel)] = true
	}
	for k := range w.node.snapshot() {
		if !known[k] {
			s.Other = append(s.Other, k)
		}
	}
	sort.Strings(s.Other)
	return s
}

// newPubWorld: a fresh store with the destination records of a1..a4, both clients registered through the API
func newPubWorld(w *world) *pubWorld {
	w.startServers() // nothing a server remembered about the previous store survives
	w.freshStore()
	p := &pubWorld{w: w, clients: map[string]*client{}, srv: map[string]*srvRec{"a1": w.self}, nodes: map[string]*protocol.Node{},
		real: map[string]string{}, leases: map[string]uint64{}}
	for k := 2; k <= 5; k++ {
		sym := fmt.Sprintf("a%d", k)
		p.srv[sym] = &srvRec{Sym: sym,
			Chord:  &protocol.Node{Id: uint64(k) << 40, Address: fmt.Sprintf("chord-a%d.internal:7946", k)},
			Tunnel: &protocol.Node{Id: uint64(900000 + k), Address: fmt.Sprintf("tun-a%d.example.net:443", k)}}
		if k <= 4 {
			w.putDestination(p.srv[sym], true, true)
		}
	}
	a5 := p.srv["a5"]
	delete(p.srv, "a5") // no record: nothing may ever point to it
	p.nodes = map[string]*protocol.Node{
		"n1": w.self.Tunnel, "n2": p.srv["a2"].Tunnel, "n3": p.srv["a3"].Tunnel,
		"n3b": {Id: 777777, Address: p.srv["a3"].Tunnel.GetAddress()}, // same endpoint, another claimed id
		"n4":  p.srv["a4"].Tunnel, "n5": a5.Tunnel,
	}
	p.clients["A"] = w.v1Client("A", 2001, "tokA-77e1")
	p.clients["B"] = w.v2Client("B", 2002, []byte("fedcba9876543210fedcba9876543210"))
	p.real = map[string]string{"g1": "never-generated-g1", "g2": "never-generated-g2", "x1": "x1.customer-site.org"}
	// both clients register through the API
	for _, name := range []string{"A", "B"} {
		c := p.clients[name]
		w.tp.setCaller(caller{cert: c.Cert, claimed: c.Verified})
		ctx, cancel := w.callCtx()
		if _, err := w.cli.RegisterIdentity(ctx, &protocol.RegisterIdentityRequest{}); err != nil {
			fmt.Fprintf(os.Stderr, "setup: RegisterIdentity(%s): %v\n", name, err)
			verifkit.Flush()
			os.Exit(4)
		}
		cancel()
	}
	return p
}

// do issues one request of a history through the real twirp client
func (p *pubWorld) do(k call, r *rand.Rand) stepObs {
	w := p.w
	so := stepObs{Call: call{Op: k.Op, C: k.C, H: k.H, Servers: k.Servers}}
	c := p.clients[k.C]
	other := p.clients["A"]
	if k.C == "A" {
		other = p.clients["B"]
	}
	cl := caller{cert: c.Cert, claimed: c.Verified}
	so.Spoof = k.Spoof
	if so.Spoof == "" {
		so.Spoof = []string{"none", "other", "other", "junk"}[r.Intn(4)]
	}
	switch so.Spoof { // what the peer claims to be must not matter
	case "other":
		cl.claimed = other.Verified
	case "junk":
		cl.claimed = &protocol.Node{Id: 424242, Address: "evil.example:1", Rendezvous: true}
	}
	w.tp.setCaller(cl)
	w.tp2.setCaller(cl)
	cli := w.cli
	so.Via = k.Via // which of its edge nodes the client calls must not matter
	if so.Via == 0 {
		so.Via = 1 + r.Intn(2)
	}
	if so.Via == 2 {
		cli = w.cli2
	}
	ctx, cancel := w.callCtx()
	var err error
	real := p.real[k.H]
	if k.DelFail > 0 {
		w.node.setDelFault(tun.RoutingKey(real, k.DelFail), errors.New("verif: ring node unreachable"))
		defer w.node.setDelFault("", nil)
	}
	so.Real = real
	switch k.Op {
	case "generate":
		var resp *protocol.GenerateHostnameResponse
		resp, err = cli.GenerateHostname(ctx, &protocol.GenerateHostnameRequest{})
		if err == nil {
			p.real[k.H] = resp.GetHostname()
			so.Real = resp.GetHostname()
		}
	case "validate":
		w.dnsOK(real, c) // the owner of the domain points the challenge record at the caller's token
		_, err = cli.AcmeValidate(ctx, &protocol.ValidateRequest{Hostname: real, Proof: w.proof(real)})
	case "publish":
		_, err = cli.PublishTunnel(ctx, &protocol.PublishTunnelRequest{Hostname: real, Servers: p.servers(k.Servers)})
	case "unpublish":
		_, err = cli.UnpublishTunnel(ctx, &protocol.UnpublishTunnelRequest{Hostname: real})
	case "release":
		_, err = cli.ReleaseTunnel(ctx, &protocol.ReleaseTunnelRequest{Hostname: real})
	case "hold": // another server holds the client's lease
		so.Spoof = "-"
		var tok uint64
		tok, err = w.node.store().Acquire(w.ctx, []byte(tun.ClientLeaseKey(c.tok())), 60*time.Second)
		p.leases[k.C] = tok
	case "unhold":
		so.Spoof = "-"
		err = w.node.store().Release(w.ctx, []byte(tun.ClientLeaseKey(c.tok())), p.leases[k.C])
	default:
		panic("op " + k.Op)
	}
	cancel()
	so.Ok = err == nil
	so.Code = errCode(err, "")
	if err != nil {
		so.Msg = err.Error()
		if len(so.Msg) > 120 {
			so.Msg = so.Msg[:120]
		}
	}
	return so
}

func (p *pubWorld) servers(syms []string) []*protocol.Node {
	servers := make([]*protocol.Node, len(syms))
	for j, s := range syms {
		servers[j] = p.nodes[s]
	}
	return servers
}

func runPublish(w *world) {
	r := verifkit.Rand(26)
	verifkit.EachCase(func(i int, raw json.RawMessage) {
		wk := verifkit.Decode[walk](raw)
		p := newPubWorld(w)
		obs := walkObs{Init: p.project()}
		prev := must(json.Marshal(obs.Init))
		for _, k := range wk.Steps {
			so := p.do(k, r)
			post := p.project()
			cur := must(json.Marshal(post))
			if string(cur) != string(prev) {
				so.Post = post
				prev = cur
			}
			obs.Steps = append(obs.Steps, so)
		}
		verifkit.Answer(i, obs)
	})
}

// ---------------------------------------------------------------------------------------------
// C26, racing requests.  Two requests run on the handlers at the same time; every DHT operation of a marked request
// passes the gate of the fake node.  The operations of the outer request run one at a time; before its n-th operation the
// whole inner request runs (n = 1 .. number of operations + 1, the last position being "after the outer request returned").
// Every operation is recorded (request, operation, key class, result): the recording is validated against
// spec/TunnelRace.tla, the outcome is judged by the statement (TunnelCtl family race_obs).

type raceTag struct{}

type raceEvent struct {
	R   int    `json:"r"` // 1 = outer, 2 = inner
	A   string `json:"a"` // acq chk look put del prm rmc rel | ret
	I   int    `json:"i"` // slot of put / del
	Res string `json:"res"`
	Raw string `json:"raw,omitempty"` // operation and key when the class is unknown
}

type racer struct {
	mu      sync.Mutex // serialises the operations of the outer request
	recMu   sync.Mutex
	at      int
	count   int
	fired   bool
	inner   func()
	events  []raceEvent
	classOf func(op string, key []byte) (string, int)
}

func (g *racer) record(e raceEvent) {
	g.recMu.Lock()
	g.events = append(g.events, e)
	g.recMu.Unlock()
}

// enter is called by the fake node before an operation of a marked request; the returned function takes the result
func (g *racer) enter(tag int, op string, key []byte) func(res string) {
	a, i := g.classOf(op, key)
	raw := ""
	if a == "?" {
		raw = op + " " + string(key)
	}
	if tag == 1 {
		g.mu.Lock()
		g.count++
		if g.count == g.at && !g.fired {
			g.fired = true
			g.inner()
		}
		return func(res string) {
			g.record(raceEvent{R: 1, A: a, I: i, Res: res, Raw: raw})
			g.mu.Unlock()
		}
	}
	return func(res string) { g.record(raceEvent{R: 2, A: a, I: i, Res: res, Raw: raw}) }
}

type raceCase struct {
	Setup []call `json:"setup"`
	Outer call   `json:"outer"`
	Inner call   `json:"inner"`
}

type raceRun struct {
	At      int         `json:"at"`
	Before  string      `json:"before"` // the operation of the outer request before which the inner request ran
	Pre     *stateP     `json:"pre"`
	Post    *stateP     `json:"post"`
	OuterOk bool        `json:"outerOk"`
	InnerOk bool        `json:"innerOk"`
	Codes   [2]string   `json:"codes"`
	Events  []raceEvent `json:"events"`
}

func (p *pubWorld) direct(tag int, k call) error {
	w := p.w
	c := p.clients[k.C]
	d := &transport.StreamDelegate{Identity: c.Verified, Certificate: c.Cert, Kind: protocol.Stream_RPC}
	ctx, cancel := context.WithTimeout(context.WithValue(rpc.WithDelegation(w.ctx, d), raceTag{}, tag), 20*time.Second)
	defer cancel()
	real := p.real[k.H]
	var err error
	switch k.Op {
	case "publish":
		_, err = w.srv.PublishTunnel(ctx, &protocol.PublishTunnelRequest{Hostname: real, Servers: p.servers(k.Servers)})
	case "unpublish":
		_, err = w.srv.UnpublishTunnel(ctx, &protocol.UnpublishTunnelRequest{Hostname: real})
	case "release":
		_, err = w.srv.ReleaseTunnel(ctx, &protocol.ReleaseTunnelRequest{Hostname: real})
	default:
		panic("race op " + k.Op)
	}
	return err
}

func runRace(w *world) {
	r := verifkit.Rand(27)
	verifkit.EachCase(func(i int, raw json.RawMessage) {
		rc := verifkit.Decode[raceCase](raw)
		runs := []raceRun{}
		for at := 1; ; at++ {
			p := newPubWorld(w)
			for _, k := range rc.Setup {
				k.Spoof = "none"
				if so := p.do(k, r); !so.Ok {
					fmt.Fprintf(os.Stderr, "race setup: %s failed: %s %s\n", k.Op, so.Code, so.Msg)
					verifkit.Flush()
					os.Exit(4)
				}
			}
			run := raceRun{At: at, Pre: p.project()}
			g := &racer{at: at}
			oc, ic := p.clients[rc.Outer.C], p.clients[rc.Inner.C]
			g.classOf = func(op string, key []byte) (string, int) {
				k := string(key)
				for _, c := range []*client{oc, ic} {
					switch {
					case k == tun.ClientLeaseKey(c.tok()) && op == "Acquire":
						return "acq", 0
					case k == tun.ClientLeaseKey(c.tok()) && op == "Release":
						return "rel", 0
					case k == tun.ClientHostnamesPrefix(c.tok()) && op == "PrefixContains":
						return "chk", 0
					case k == tun.ClientHostnamesPrefix(c.tok()) && op == "PrefixRemove":
						return "prm", 0
					}
				}
				for _, h := range []string{rc.Outer.H, rc.Inner.H} {
					for s := 1; s <= 3; s++ {
						if k == tun.RoutingKey(p.real[h], s) && op == "Put" {
							return "put", s
						}
						if k == tun.RoutingKey(p.real[h], s) && op == "Delete" {
							return "del", s
						}
					}
					if k == tun.CustomHostnameKey(p.real[h]) && op == "Delete" {
						return "rmc", 0
					}
				}
				if op == "Get" {
					for _, n := range p.nodes {
						if k == tun.DestinationByTunnelKey(n) {
							return "look", 0
						}
					}
				}
				return "?", 0
			}
			g.inner = func() {
				err := p.direct(2, rc.Inner)
				run.InnerOk = err == nil
				run.Codes[1] = errCode(err, "")
				g.record(raceEvent{R: 2, A: "ret", Res: fmt.Sprint(err == nil)})
			}
			w.node.setRacer(g)
			err := p.direct(1, rc.Outer)
			run.OuterOk = err == nil
			run.Codes[0] = errCode(err, "")
			g.record(raceEvent{R: 1, A: "ret", Res: fmt.Sprint(err == nil)})
			last := !g.fired
			if last { // the position after the last operation: the inner request follows the outer one
				g.fired = true
				g.inner()
				run.Before = "end"
			}
			w.node.setRacer(nil)
			if !last {
				n := 0
				for _, e := range g.events {
					if e.R == 1 && e.A != "ret" {
						n++
						if n == at {
							run.Before = e.A
						}
					}
				}
			}
			run.Events = g.events
			run.Post = p.project()
			runs = append(runs, run)
			if last || at > 40 {
				break
			}
		}
		verifkit.Answer(i, runs)
	})
}

func main() {
	if len(os.Args) < 2 {
		fmt.Fprintln(os.Stderr, "usage: tunctl list|gating|getnodes|publish")
		os.Exit(2)
	}
	switch os.Args[1] {
	case "list":
		verifkit.Emit(map[string]any{"methods": listMethods()})
		verifkit.Flush()
	case "gating":
		runGating(newWorld())
	case "getnodes":
		mode := "mixed"
		if len(os.Args) > 2 {
			mode = os.Args[2]
		}
		runGetNodes(newWorld(), mode)
	case "publish":
		runPublish(newWorld())
	case "race":
		runRace(newWorld())
	default:
		fmt.Fprintln(os.Stderr, "unknown mode", os.Args[1])
		os.Exit(2)
	}
}
