//go:build verif

// Driver for the ring specifications (ChordKV / ChordRing): executes scenarios on real LocalNodes
// under the controlled scheduler and records one event (with the projected state of every node)
// per step.
package main

import (
	"context"
	"encoding/json"
	"fmt"
	"os"
	"reflect"
	"runtime"
	"sort"
	"strconv"
	"strings"
	"sync"
	"time"

	implchord "go.miragespace.co/specter/chord"
	"go.miragespace.co/specter/internal/verifkit"
	"go.miragespace.co/specter/internal/verifkit/ring"
	"go.miragespace.co/specter/spec/chord"
	"go.miragespace.co/specter/util/verifhook"

	"go.uber.org/zap"
)

type Step struct {
	Do     string `json:"do"`
	Op     string `json:"op,omitempty"`
	Kind   string `json:"kind,omitempty"`
	N      string `json:"n,omitempty"`
	Via    string `json:"via,omitempty"`
	At     string `json:"at,omitempty"`
	K      string `json:"k,omitempty"`
	V      string `json:"v,omitempty"`
	Rounds int    `json:"rounds,omitempty"`
	Gate   string `json:"gate,omitempty"`
	Key    uint64 `json:"key,omitempty"`
	State  string `json:"state,omitempty"` // setstate: the lifecycle state forced on node N ("Left": the node stops answering, a crash as its peers see it)
}

type Scenario struct {
	Name    string      `json:"name"`
	Layout  []ring.Item `json:"layout"`
	Variant int         `json:"variant"`
	Gates   []string    `json:"gates"`
	Fingers bool        `json:"fingers"`
	Steps   []Step      `json:"steps"`
	// CritParks: an operation may also park at the sub-gate inside RequestToJoin, i.e. while it holds surrogateMu (lock-order
	// scenarios: what every other operation on that node does meanwhile is then run as an operation of its own, which may block)
	CritParks bool `json:"critparks"`
}

// inRequestToJoin: the calling goroutine is inside RequestToJoin (it holds surrogateMu from the rtj:lock gate on)
func inRequestToJoin() bool {
	pcs := make([]uintptr, 48)
	n := runtime.Callers(2, pcs)
	frames := runtime.CallersFrames(pcs[:n])
	for {
		f, more := frames.Next()
		if strings.HasSuffix(f.Function, ".RequestToJoin") {
			return true
		}
		if !more {
			return false
		}
	}
}

// inCriticalSection reports whether the calling goroutine is inside a section of the membership code that holds
// surrogateMu / predecessorMu (RequestToJoin after its lock gate, the key transfer of a leave)
func inCriticalSection() bool {
	pcs := make([]uintptr, 48)
	n := runtime.Callers(2, pcs)
	frames := runtime.CallersFrames(pcs[:n])
	for {
		f, more := frames.Next()
		if strings.HasSuffix(f.Function, ".RequestToJoin") || strings.Contains(f.Function, "transferKeys") ||
			strings.HasSuffix(f.Function, ".Import") || strings.Contains(f.Function, "kvMiddleware") {
			return true
		}
		if !more {
			return false
		}
	}
}

// onLeavePath: the calling goroutine is inside RequestToLeave or executeLeave (before the key transfer)
func onLeavePath() bool {
	pcs := make([]uintptr, 48)
	n := runtime.Callers(2, pcs)
	frames := runtime.CallersFrames(pcs[:n])
	for {
		f, more := frames.Next()
		if strings.HasSuffix(f.Function, ".RequestToLeave") || strings.HasSuffix(f.Function, ".executeLeave") {
			return true
		}
		if !more {
			return false
		}
	}
}

// nodeReg maps node ids to nodes; read by parked task goroutines, written by the driver
type nodeReg struct {
	mu sync.RWMutex
	m  map[uint64]*implchord.LocalNode
}

func newReg() *nodeReg { return &nodeReg{m: map[uint64]*implchord.LocalNode{}} }
func (r *nodeReg) put(n *implchord.LocalNode) {
	r.mu.Lock()
	r.m[n.ID()] = n
	r.mu.Unlock()
}
func (r *nodeReg) get(id uint64) (*implchord.LocalNode, bool) {
	r.mu.RLock()
	n, ok := r.m[id]
	r.mu.RUnlock()
	return n, ok
}

type runner struct {
	si       int
	sc       Scenario
	r        *ring.Ring
	sched    *verifkit.Sched
	ops      map[string]*verifkit.Op
	byID     *nodeReg
	never    chan struct{}
	nblocked int
	hung     bool
}

func (x *runner) emit(i int, st Step, from, to string, res any) {
	if to == "blocked" { // once two waits have run into the step limit the scenario has made its point: the remaining ones are cut short
		x.nblocked++
		if x.nblocked >= 2 {
			x.sched.StepWait = 500 * time.Millisecond
		}
	}
	verifkit.Emit(map[string]any{"t": "step", "s": x.si, "i": i, "do": st.Do, "op": st.Op, "kind": st.Kind,
		"n": x.rankOfNode(st.N), "from": from, "to": to, "res": res, "state": x.snapshot(x.sc.Fingers, false)})
}

func (x *runner) rankOfNode(name string) int {
	if name == "" {
		return -1
	}
	return x.r.Rank[x.r.NodeID[name]]
}

func (x *runner) gateName(g string) string {
	// "gate:join:start@123" -> "join:start@<rank>"
	g = strings.TrimPrefix(g, "gate:")
	if i := strings.LastIndex(g, "@"); i >= 0 {
		id, _ := strconv.ParseUint(g[i+1:], 10, 64)
		if rk, ok := x.r.Rank[id]; ok {
			return g[:i] + "@" + strconv.Itoa(rk)
		}
	}
	return g
}

func (x *runner) startOp(st Step) func() any {
	ctx := context.Background()
	switch st.Kind {
	case "join":
		n, via := x.r.Node(st.N), x.r.Node(st.Via)
		x.byID.put(n)
		return func() any { return ring.ErrClass(n.Join(via)) }
	case "leave":
		n := x.r.Node(st.N)
		return func() any { n.Leave(); return n.VerifState().String() }
	case "stabilize": // one round of the periodic task as an operation of its own: it parks between computing and installing its list
		n := x.r.Node(st.N)
		return func() any { return ring.ErrClass(n.VerifStabilize()) }
	case "checkpred": // maintenance as operations: they may have to wait for a lock another (parked) operation holds
		n := x.r.Node(st.N)
		return func() any { return ring.ErrClass(n.VerifCheckPred()) }
	case "fixfinger":
		n := x.r.Node(st.N)
		return func() any { return ring.ErrClass(n.VerifFixFinger()) }
	case "put":
		n, k := x.r.Node(st.At), x.r.Keys[st.K]
		return func() any { return ring.ErrClass(n.Put(ctx, k, []byte(st.V))) }
	case "delete":
		n, k := x.r.Node(st.At), x.r.Keys[st.K]
		return func() any { return ring.ErrClass(n.Delete(ctx, k)) }
	case "get":
		n, k := x.r.Node(st.At), x.r.Keys[st.K]
		return func() any {
			v, err := n.Get(ctx, k)
			return map[string]any{"v": string(v), "err": ring.ErrClass(err)}
		}
	case "append":
		n, k := x.r.Node(st.At), x.r.Keys[st.K]
		return func() any { return ring.ErrClass(n.PrefixAppend(ctx, k, []byte(st.V))) }
	case "remove":
		n, k := x.r.Node(st.At), x.r.Keys[st.K]
		return func() any { return ring.ErrClass(n.PrefixRemove(ctx, k, []byte(st.V))) }
	case "list":
		n, k := x.r.Node(st.At), x.r.Keys[st.K]
		return func() any {
			ch, err := n.PrefixList(ctx, k)
			l := []string{}
			for _, c := range ch {
				l = append(l, string(c))
			}
			sort.Strings(l)
			return map[string]any{"l": l, "err": ring.ErrClass(err)}
		}
	case "lookup":
		n := x.r.Node(st.At)
		key := st.Key
		if st.K != "" {
			key = x.r.KeyID[st.K]
		}
		return func() any {
			v, err := n.FindSuccessor(key)
			if err != nil {
				return map[string]any{"err": ring.ErrClass(err)}
			}
			return map[string]any{"n": x.r.Rank[v.ID()], "err": "ok"}
		}
	}
	panic("unknown op kind " + st.Kind)
}

// snapshot: the projection takes the nodes' read locks; while an operation is blocked (possibly for ever, holding a lock) it is
// taken in a goroutine of its own and given up after a while (the state is then reported as unavailable)
func (x *runner) snapshot(fingers, hist bool) any {
	if !x.anyBlocked() {
		return x.r.Snapshot(fingers, hist)
	}
	ch := make(chan any, 1)
	go func() { ch <- x.r.Snapshot(fingers, hist) }()
	select {
	case v := <-ch:
		return v
	case <-time.After(2 * time.Second):
		return map[string]any{}
	}
}

func (x *runner) anyBlocked() bool {
	for _, op := range x.ops {
		if op.Blocked() {
			return true
		}
	}
	return false
}

func (x *runner) maint(i int, st Step) {
	if x.hung { // an earlier maintenance call never returned: its goroutine may hold locks
		x.emit(i, st, "", "skipped", "a maintenance call hangs")
		return
	}
	n := x.r.Node(st.N)
	if len(n.VerifSucc()) == 0 {
		// the periodic tasks of a node start once its successor list is installed (Create / Join) - before that there is no round to run
		x.emit(i, st, "", "skipped", "the node has no successor list: its periodic tasks are not running")
		return
	}
	done := make(chan error, 1)
	go func() {
		var err error
		switch st.Do {
		case "stabilize":
			err = n.VerifStabilize()
		case "checkpred":
			err = n.VerifCheckPred()
		case "fixfinger":
			err = n.VerifFixFinger()
		}
		done <- err
	}()
	select {
	case err := <-done:
		x.emit(i, st, "", "", ring.ErrClass(err))
	case <-time.After(8 * time.Second): // maintenance is a handful of in-process calls: this one will not return
		x.hung = true
		x.emit(i, st, "", "hung", "maintenance call did not return within 8 s")
	}
}

func (x *runner) liveNames() []string {
	var names []string
	for name, n := range x.r.Nodes {
		switch n.VerifState() {
		case chord.Active, chord.Transferring, chord.Joining, chord.Leaving:
			names = append(names, name)
		}
	}
	sort.Strings(names)
	return names
}

func (x *runner) run() {
	logger := zap.NewNop()
	if os.Getenv("VERIF_DEBUG") != "" {
		logger, _ = zap.NewDevelopment()
	}
	x.r = ring.Build(x.sc.Layout, verifkit.Seed()+int64(x.si)*131, x.sc.Variant, logger)
	x.sched = verifkit.NewSched()
	x.ops = map[string]*verifkit.Op{}
	x.byID = newReg()
	x.never = make(chan struct{})
	gates := x.sc.Gates
	x.sched.GatesOp = func(p string, op *verifkit.Op) bool {
		if strings.HasPrefix(p, "stab:") || strings.HasPrefix(p, "stn:") { // only a stabilize round run as an operation parks here, not the advisory inside a join / leave
			if !strings.HasPrefix(op.Name, "sb") {
				return false
			}
		}
		for _, g := range gates {
			if strings.HasPrefix(p, g) {
				if strings.HasPrefix(p, "ns:") {
					// sub-gate before a lifecycle transition: at most one park per protocol segment, never while a membership
					// lock is held (every other operation on that node would block), only on the leave path
					if x.sc.CritParks && op.SubParks == 0 && inRequestToJoin() {
						op.SubParks++
						return true
					}
					if op.SubParks > 0 || inCriticalSection() || !onLeavePath() {
						return false
					}
					op.SubParks++
					return true
				}
				op.SubParks = 0
				return true
			}
		}
		return false
	}
	x.sched.TaskStop = func(id uint64) <-chan struct{} {
		if n, ok := x.byID.get(id); ok {
			return n.VerifStopCh()
		}
		return x.never
	}
	verifhook.AtFn = x.sched.At
	nodes, keys := map[string]int{}, map[string]int{}
	for name, id := range x.r.NodeID {
		nodes[name] = x.r.Rank[id]
	}
	for name, id := range x.r.KeyID {
		keys[name] = x.r.Rank[id]
	}
	realIDs := map[string]string{}
	for name, id := range x.r.NodeID {
		realIDs[name] = strconv.FormatUint(id, 10)
	}
	verifkit.Emit(map[string]any{"t": "begin", "s": x.si, "name": x.sc.Name, "M": len(x.sc.Layout), "nodes": nodes, "keys": keys, "ids": realIDs})
	for i, st := range x.sc.Steps {
		switch st.Do {
		case "create":
			n := x.r.Node(st.N)
			x.byID.put(n)
			err := n.Create()
			x.emit(i, st, "", "", ring.ErrClass(err))
		case "setstate": // not a protocol step: the node is made to look crashed (Left) to its peers, or to answer again
			n := x.r.Node(st.N)
			for _, c := range []chord.State{chord.Inactive, chord.Joining, chord.Active, chord.Transferring, chord.Leaving, chord.Left} {
				if c.String() == st.State {
					n.VerifSetState(c)
				}
			}
			x.emit(i, st, "", "", n.VerifState().String())
		case "start":
			op, status := x.sched.Start(st.Op, x.startOp(st))
			x.ops[st.Op] = op
			x.emit(i, st, "", x.gateName(status), op.Result)
		case "step", "run":
			op := x.ops[st.Op]
			if op == nil {
				x.emit(i, st, "", "noop", nil)
				continue
			}
			from := x.gateName(op.Gate)
			var status string
			if st.Do == "step" {
				status = x.sched.Step(op)
			} else {
				status = x.sched.Run(op, 200)
			}
			x.emit(i, st, from, x.gateName(status), op.Result)
		case "steps", "until": // advance to completion / to a named gate, one event per gate-to-gate segment
			op := x.ops[st.Op]
			for k := 0; op != nil && k < 400; k++ {
				if st.Do == "until" && (op.Done || strings.HasPrefix(op.Gate, st.Gate)) {
					break
				}
				from := x.gateName(op.Gate)
				status := x.sched.Step(op)
				x.emit(i, Step{Do: "step", Op: st.Op}, from, x.gateName(status), op.Result)
				if status == "done" || status == "blocked" {
					break
				}
			}
		case "stabilize", "checkpred", "fixfinger":
			if x.anyBlocked() { // an operation hangs on a lock: a synchronous maintenance call could hang with it
				x.emit(i, st, "", "skipped", "an operation is blocked")
				continue
			}
			x.maint(i, st)
		case "settle":
			if x.anyBlocked() {
				x.emit(i, st, "", "skipped", "an operation is blocked")
				continue
			}
			rounds := st.Rounds
			if rounds == 0 {
				rounds = 12
			}
			stable := false
			for rd := 0; rd < rounds && !stable && !x.hung; rd++ {
				before := x.r.Snapshot(true, false)
				for _, name := range x.liveNames() {
					for _, do := range []string{"stabilize", "checkpred", "fixfinger"} {
						x.maint(i, Step{Do: do, N: name})
					}
				}
				stable = !x.hung && reflect.DeepEqual(before, x.r.Snapshot(true, false))
			}
			if x.hung {
				verifkit.Emit(map[string]any{"t": "hung", "s": x.si, "i": i})
				continue
			}
			verifkit.Emit(map[string]any{"t": "settled", "s": x.si, "i": i, "stable": stable,
				"state": x.r.Snapshot(true, true)})
		case "sleep":
			time.Sleep(time.Duration(st.Rounds) * time.Millisecond)
		default:
			panic("unknown step " + st.Do)
		}
	}
	// final report of every operation
	final := map[string]any{}
	for name, op := range x.ops {
		final[name] = map[string]any{"done": op.Done, "gate": x.gateName(op.Gate), "res": op.Result}
	}
	verifkit.Emit(map[string]any{"t": "end", "s": x.si, "ops": final, "state": x.snapshot(true, true)})
	verifhook.AtFn = nil
}

// ringtable: build a ring from explicit ids by sequential joins, settle it to a maintenance fixpoint with the real
// stabilize / checkPredecessor / fixFinger, then answer FindSuccessor for every (node, key) pair (C01).
type tableCase struct {
	IDs   []string `json:"ids"`
	Keys  []string `json:"keys"`
	Order int64    `json:"order"`
}

func ringTable(i int, c tableCase) map[string]any {
	sched := verifkit.NewSched()
	never := make(chan struct{})
	byID := newReg()
	sched.TaskStop = func(id uint64) <-chan struct{} {
		if n, ok := byID.get(id); ok {
			return n.VerifStopCh()
		}
		return never
	}
	verifhook.AtFn = sched.At
	defer func() { verifhook.AtFn = nil }()
	layout := make([]ring.Item, len(c.IDs))
	ids := make([]uint64, len(c.IDs))
	for k, sid := range c.IDs {
		v, _ := strconv.ParseUint(sid, 10, 64)
		ids[k] = v
		layout[k] = ring.Item{N: strconv.Itoa(k), ID: v, Zero: v == 0}
	}
	r := ring.Build(layout, verifkit.Seed(), 0, zap.NewNop())
	rnd := verifkit.Rand(c.Order)
	order := rnd.Perm(len(ids))
	nodes := []*implchord.LocalNode{}
	settle := func() bool {
		for rd := 0; rd < 40; rd++ {
			before := r.Snapshot(true, false)
			for _, n := range nodes {
				n.VerifStabilize()
				n.VerifCheckPred()
				n.VerifFixFinger()
			}
			if reflect.DeepEqual(before, r.Snapshot(true, false)) {
				return true
			}
		}
		return false
	}
	lookups := func(nodes []*implchord.LocalNode, keys []string) [][]any {
		var lk [][]any
		for _, n := range nodes {
			from := r.Rank[n.ID()]
			for ki, sk := range keys {
				key, _ := strconv.ParseUint(sk, 10, 64)
				v, err := n.FindSuccessor(key)
				if err != nil {
					lk = append(lk, []any{from, ki, -1, ring.ErrClass(err)})
				} else {
					lk = append(lk, []any{from, ki, r.Rank[v.ID()], "ok"})
				}
			}
		}
		return lk
	}
	for k, oi := range order {
		n := r.Node(strconv.Itoa(oi))
		byID.put(n)
		if k == 0 {
			if err := n.Create(); err != nil {
				return map[string]any{"err": "create: " + err.Error()}
			}
		} else {
			via := nodes[rnd.Intn(len(nodes))]
			if err := n.Join(via); err != nil {
				// a join refused on a settled ring: report the lookups of the ring built so far, the refusal may be
				// the consequence of a wrong lookup (the joiner's own id is among the keys asked)
				members := []int{}
				for _, m := range nodes {
					members = append(members, r.Rank[m.ID()])
				}
				return map[string]any{"err": "join: " + ring.ErrClass(err), "joiner": oi, "members": members,
					"stable": settle(), "lookups": lookups(nodes, append(append([]string{}, c.Keys...), c.IDs[oi]))}
			}
		}
		nodes = append(nodes, n)
		settle()
	}
	stable := settle()
	out := map[string]any{"stable": stable}
	out["lookups"] = lookups(nodes, c.Keys)
	out["state"] = r.Snapshot(true, false)
	for _, n := range nodes {
		go n.Leave()
	}
	return out
}

func main() {
	mode := "script"
	if len(os.Args) > 1 {
		mode = os.Args[1]
	}
	switch mode {
	case "script":
		verifkit.EachCase(func(i int, raw json.RawMessage) {
			sc := verifkit.Decode[Scenario](raw)
			x := &runner{si: i, sc: sc}
			if p := verifkit.Recover(x.run); p != "" {
				verifkit.Emit(map[string]any{"t": "panic", "s": i, "msg": p})
			}
		})
	case "ringtable":
		verifkit.EachCase(func(i int, raw json.RawMessage) {
			c := verifkit.Decode[tableCase](raw)
			var res map[string]any
			if p := verifkit.Recover(func() { res = ringTable(i, c) }); p != "" {
				res = map[string]any{"err": "panic: " + p}
			}
			verifkit.Answer(i, res)
		})
	default:
		fmt.Fprintln(os.Stderr, "unknown mode", mode)
		os.Exit(2)
	}
}
