//go:build verif

// Driver for the ring specifications (ChordKV / ChordRing): executes scenarios on real LocalNodes
// under the controlled scheduler and records one event (with the projected state of every node)
// per step.
package main

import (
	"context"
	"encoding/json"
	"fmt"
	"os"
	"reflect"
	"sort"
	"strconv"
	"strings"
	"time"

	implchord "go.miragespace.co/specter/chord"
	"go.miragespace.co/specter/internal/verifkit"
	"go.miragespace.co/specter/internal/verifkit/ring"
	"go.miragespace.co/specter/spec/chord"
	"go.miragespace.co/specter/util/verifhook"

	"go.uber.org/zap"
)

type Step struct {
	Do     string `json:"do"`
	Op     string `json:"op,omitempty"`
	Kind   string `json:"kind,omitempty"`
	N      string `json:"n,omitempty"`
	Via    string `json:"via,omitempty"`
	At     string `json:"at,omitempty"`
	K      string `json:"k,omitempty"`
	V      string `json:"v,omitempty"`
	Rounds int    `json:"rounds,omitempty"`
	Gate   string `json:"gate,omitempty"`
	Key    uint64 `json:"key,omitempty"`
}

type Scenario struct {
	Name    string      `json:"name"`
	Layout  []ring.Item `json:"layout"`
	Variant int         `json:"variant"`
	Gates   []string    `json:"gates"`
	Fingers bool        `json:"fingers"`
	Steps   []Step      `json:"steps"`
}

type runner struct {
	si    int
	sc    Scenario
	r     *ring.Ring
	sched *verifkit.Sched
	ops   map[string]*verifkit.Op
	byID  map[uint64]*implchord.LocalNode
	never chan struct{}
}

func (x *runner) emit(i int, st Step, from, to string, res any) {
	verifkit.Emit(map[string]any{"t": "step", "s": x.si, "i": i, "do": st.Do, "op": st.Op, "kind": st.Kind,
		"n": x.rankOfNode(st.N), "from": from, "to": to, "res": res, "state": x.r.Snapshot(x.sc.Fingers, false)})
}

func (x *runner) rankOfNode(name string) int {
	if name == "" {
		return -1
	}
	return x.r.Rank[x.r.NodeID[name]]
}

func (x *runner) gateName(g string) string {
	// "gate:join:start@123" -> "join:start@<rank>"
	g = strings.TrimPrefix(g, "gate:")
	if i := strings.LastIndex(g, "@"); i >= 0 {
		id, _ := strconv.ParseUint(g[i+1:], 10, 64)
		if rk, ok := x.r.Rank[id]; ok {
			return g[:i] + "@" + strconv.Itoa(rk)
		}
	}
	return g
}

func (x *runner) startOp(st Step) func() any {
	ctx := context.Background()
	switch st.Kind {
	case "join":
		n, via := x.r.Node(st.N), x.r.Node(st.Via)
		x.byID[n.ID()] = n
		return func() any { return ring.ErrClass(n.Join(via)) }
	case "leave":
		n := x.r.Node(st.N)
		return func() any { n.Leave(); return n.VerifState().String() }
	case "put":
		n, k := x.r.Node(st.At), x.r.Keys[st.K]
		return func() any { return ring.ErrClass(n.Put(ctx, k, []byte(st.V))) }
	case "delete":
		n, k := x.r.Node(st.At), x.r.Keys[st.K]
		return func() any { return ring.ErrClass(n.Delete(ctx, k)) }
	case "get":
		n, k := x.r.Node(st.At), x.r.Keys[st.K]
		return func() any {
			v, err := n.Get(ctx, k)
			return map[string]any{"v": string(v), "err": ring.ErrClass(err)}
		}
	case "append":
		n, k := x.r.Node(st.At), x.r.Keys[st.K]
		return func() any { return ring.ErrClass(n.PrefixAppend(ctx, k, []byte(st.V))) }
	case "remove":
		n, k := x.r.Node(st.At), x.r.Keys[st.K]
		return func() any { return ring.ErrClass(n.PrefixRemove(ctx, k, []byte(st.V))) }
	case "list":
		n, k := x.r.Node(st.At), x.r.Keys[st.K]
		return func() any {
			ch, err := n.PrefixList(ctx, k)
			l := []string{}
			for _, c := range ch {
				l = append(l, string(c))
			}
			sort.Strings(l)
			return map[string]any{"l": l, "err": ring.ErrClass(err)}
		}
	case "lookup":
		n := x.r.Node(st.At)
		key := st.Key
		if st.K != "" {
			key = x.r.KeyID[st.K]
		}
		return func() any {
			v, err := n.FindSuccessor(key)
			if err != nil {
				return map[string]any{"err": ring.ErrClass(err)}
			}
			return map[string]any{"n": x.r.Rank[v.ID()], "err": "ok"}
		}
	}
	panic("unknown op kind " + st.Kind)
}

func (x *runner) maint(i int, st Step) {
	n := x.r.Node(st.N)
	var err error
	switch st.Do {
	case "stabilize":
		err = n.VerifStabilize()
	case "checkpred":
		err = n.VerifCheckPred()
	case "fixfinger":
		err = n.VerifFixFinger()
	}
	x.emit(i, st, "", "", ring.ErrClass(err))
}

func (x *runner) liveNames() []string {
	var names []string
	for name, n := range x.r.Nodes {
		switch n.VerifState() {
		case chord.Active, chord.Transferring, chord.Joining, chord.Leaving:
			names = append(names, name)
		}
	}
	sort.Strings(names)
	return names
}

func (x *runner) run() {
	logger := zap.NewNop()
	if os.Getenv("VERIF_DEBUG") != "" {
		logger, _ = zap.NewDevelopment()
	}
	x.r = ring.Build(x.sc.Layout, verifkit.Seed()+int64(x.si)*131, x.sc.Variant, logger)
	x.sched = verifkit.NewSched()
	x.ops = map[string]*verifkit.Op{}
	x.byID = map[uint64]*implchord.LocalNode{}
	x.never = make(chan struct{})
	gates := x.sc.Gates
	x.sched.Gates = func(p string) bool {
		for _, g := range gates {
			if strings.HasPrefix(p, g) {
				return true
			}
		}
		return false
	}
	x.sched.TaskStop = func(id uint64) <-chan struct{} {
		if n, ok := x.byID[id]; ok {
			return n.VerifStopCh()
		}
		return x.never
	}
	verifhook.AtFn = x.sched.At
	nodes, keys := map[string]int{}, map[string]int{}
	for name, id := range x.r.NodeID {
		nodes[name] = x.r.Rank[id]
	}
	for name, id := range x.r.KeyID {
		keys[name] = x.r.Rank[id]
	}
	verifkit.Emit(map[string]any{"t": "begin", "s": x.si, "name": x.sc.Name, "M": len(x.sc.Layout), "nodes": nodes, "keys": keys})
	for i, st := range x.sc.Steps {
		switch st.Do {
		case "create":
			n := x.r.Node(st.N)
			x.byID[n.ID()] = n
			err := n.Create()
			x.emit(i, st, "", "", ring.ErrClass(err))
		case "start":
			op, status := x.sched.Start(st.Op, x.startOp(st))
			x.ops[st.Op] = op
			x.emit(i, st, "", x.gateName(status), op.Result)
		case "step", "run":
			op := x.ops[st.Op]
			if op == nil {
				x.emit(i, st, "", "noop", nil)
				continue
			}
			from := x.gateName(op.Gate)
			var status string
			if st.Do == "step" {
				status = x.sched.Step(op)
			} else {
				status = x.sched.Run(op, 200)
			}
			x.emit(i, st, from, x.gateName(status), op.Result)
		case "steps", "until": // advance to completion / to a named gate, one event per gate-to-gate segment
			op := x.ops[st.Op]
			for k := 0; op != nil && k < 400; k++ {
				if st.Do == "until" && (op.Done || strings.HasPrefix(op.Gate, st.Gate)) {
					break
				}
				from := x.gateName(op.Gate)
				status := x.sched.Step(op)
				x.emit(i, Step{Do: "step", Op: st.Op}, from, x.gateName(status), op.Result)
				if status == "done" || status == "blocked" {
					break
				}
			}
		case "stabilize", "checkpred", "fixfinger":
			x.maint(i, st)
		case "settle":
			rounds := st.Rounds
			if rounds == 0 {
				rounds = 12
			}
			stable := false
			for rd := 0; rd < rounds && !stable; rd++ {
				before := x.r.Snapshot(true, false)
				for _, name := range x.liveNames() {
					for _, do := range []string{"stabilize", "checkpred", "fixfinger"} {
						x.maint(i, Step{Do: do, N: name})
					}
				}
				stable = reflect.DeepEqual(before, x.r.Snapshot(true, false))
			}
			verifkit.Emit(map[string]any{"t": "settled", "s": x.si, "i": i, "stable": stable,
				"state": x.r.Snapshot(true, true)})
		case "sleep":
			time.Sleep(time.Duration(st.Rounds) * time.Millisecond)
		default:
			panic("unknown step " + st.Do)
		}
	}
	// final report of every operation
	final := map[string]any{}
	for name, op := range x.ops {
		final[name] = map[string]any{"done": op.Done, "gate": x.gateName(op.Gate), "res": op.Result}
	}
	verifkit.Emit(map[string]any{"t": "end", "s": x.si, "ops": final, "state": x.r.Snapshot(true, true)})
	verifhook.AtFn = nil
}

func main() {
	mode := "script"
	if len(os.Args) > 1 {
		mode = os.Args[1]
	}
	switch mode {
	case "script":
		verifkit.EachCase(func(i int, raw json.RawMessage) {
			sc := verifkit.Decode[Scenario](raw)
			x := &runner{si: i, sc: sc}
			if p := verifkit.Recover(x.run); p != "" {
				verifkit.Emit(map[string]any{"t": "panic", "s": i, "msg": p})
			}
		})
	default:
		fmt.Fprintln(os.Stderr, "unknown mode", mode)
		os.Exit(2)
	}
}
