//go:build verif

// Driver for Gateway.tla (C34-C37): replays TLC-enumerated cases into the real gateway code.
//
//	resolve  C34  extractHostname / parseAddr on hosts given as label sequences or literals
//	rewrite  C35  inbound request -> the proxy handler gateway.New installed -> http.Transport -> fake tunnel
//	              that records the outbound request
//	status   C36  dial error class x protocol: proxy handler / errorHandler (HTTP), forwardTCP (raw TCP),
//	              the plain-HTTP router behind a real net/http server (CONNECT)
//	admin    C37  the apex handler gateway.New installed; fake internal handlers and a fake DialInternal
//	              record what was reached
//
// The driver judges nothing: it reports observations, the verdict is taken against the expectation the
// specification emitted with the case.
package main

import (
	"bufio"
	"bytes"
	"context"
	"crypto/tls"
	"encoding/base64"
	"encoding/json"
	"errors"
	"fmt"
	"io"
	"net"
	"net/http"
	"net/http/httptest"
	"os"
	"strconv"
	"strings"
	"sync"
	"time"

	"go.miragespace.co/specter/gateway"
	"go.miragespace.co/specter/internal/verifkit"
	"go.miragespace.co/specter/spec/protocol"
	"go.miragespace.co/specter/spec/rpc"
	"go.miragespace.co/specter/spec/transport"
	"go.miragespace.co/specter/spec/tun"

	"go.uber.org/zap"
)

const ioWait = 10 * time.Second // generous: a loaded machine must not turn into a verdict

// ---------------------------------------------------------------------------------------------
// fake tunnel server

type fakeTun struct {
	mu           sync.Mutex
	dialClient   func(ctx context.Context, l *protocol.Link) (net.Conn, error)
	dialInternal func(ctx context.Context, n *protocol.Node) (net.Conn, error)
	links        []*protocol.Link
	internals    []string
}

func (f *fakeTun) Identity() *protocol.Node {
	return &protocol.Node{Id: 1, Address: "127.0.0.1:1234"}
}

func (f *fakeTun) DialClient(ctx context.Context, l *protocol.Link) (net.Conn, error) {
	f.mu.Lock()
	f.links = append(f.links, l)
	fn := f.dialClient
	f.mu.Unlock()
	if fn == nil {
		return nil, tun.ErrDestinationNotFound
	}
	return fn(ctx, l)
}

func (f *fakeTun) DialInternal(ctx context.Context, n *protocol.Node) (net.Conn, error) {
	f.mu.Lock()
	f.internals = append(f.internals, n.GetAddress())
	fn := f.dialInternal
	f.mu.Unlock()
	if fn == nil {
		return nil, errors.New("verif: internal dial refused by the fake")
	}
	return fn(ctx, n)
}

func (f *fakeTun) reset(fn func(ctx context.Context, l *protocol.Link) (net.Conn, error)) {
	f.mu.Lock()
	f.links = nil
	f.internals = nil
	f.dialClient = fn
	f.mu.Unlock()
}

func (f *fakeTun) seen() (links []*protocol.Link, internals []string) {
	f.mu.Lock()
	defer f.mu.Unlock()
	return append([]*protocol.Link(nil), f.links...), append([]string(nil), f.internals...)
}

func newGateway(ft *fakeTun, roots []string, port int, user, pass string, h gateway.InternalHandlers) *gateway.Gateway {
	return gateway.New(gateway.GatewayConfig{
		Logger:       zap.NewNop(),
		TunnelServer: ft,
		RootDomains:  roots,
		GatewayPort:  port,
		AdminUser:    user,
		AdminPass:    pass,
		Handlers:     h,
		Options:      gateway.Options{TransportBufferSize: 8192, ProxyBufferSize: 8192},
	})
}

// ---------------------------------------------------------------------------------------------
// C34 resolve

func joinLabel(l []string) string { return strings.Join(l, "") }
func joinHost(h [][]string) string {
	p := make([]string, len(h))
	for i, l := range h {
		p[i] = joinLabel(l)
	}
	return strings.Join(p, ".")
}

type resolveObs struct {
	Via  string `json:"via"`
	In   string `json:"in"`
	Ok   bool   `json:"ok"`
	Name string `json:"name"`
	Err  string `json:"err,omitempty"`
}

func runResolve() {
	gws := map[string]*gateway.Gateway{}
	verifkit.EachCase(func(i int, raw json.RawMessage) {
		c := verifkit.Decode[struct {
			Host  [][]string
			Lit   string
			Roots [][][]string
			Ports []int
		}](raw)
		roots := make([]string, len(c.Roots))
		for k, r := range c.Roots {
			roots[k] = joinHost(r)
		}
		key := strings.Join(roots, ",")
		g := gws[key]
		if g == nil {
			g = newGateway(&fakeTun{}, roots, 443, "", "", gateway.InternalHandlers{})
			gws[key] = g
		}
		host := c.Lit
		if host == "" {
			host = joinHost(c.Host)
		}
		var obs []resolveObs
		one := func(via, in string, fn func() (string, error)) {
			o := resolveObs{Via: via, In: in}
			if p := verifkit.Recover(func() {
				name, err := fn()
				o.Ok, o.Name = err == nil, name
				if err != nil {
					o.Name, o.Err = "", err.Error()
				}
			}); p != "" {
				o.Ok, o.Err = false, "panic: "+p
			}
			obs = append(obs, o)
		}
		one("extract", host, func() (string, error) { return g.VerifExtractHostname(host) })
		for _, p := range c.Ports {
			addr := net.JoinHostPort(host, strconv.Itoa(p)) // brackets an IPv6 literal
			one("parse", addr, func() (string, error) {
				_, name, err := g.VerifParseAddr(addr)
				return name, err
			})
		}
		verifkit.Answer(i, obs)
	})
}

// ---------------------------------------------------------------------------------------------
// C35 rewrite

type hdr struct {
	N string   `json:"n"`
	V []string `json:"v"`
}

type capturedReq struct {
	Host   string
	Header http.Header
}

// serveOnce plays the tunnel client on one connection: reads one request, records it, answers per mode.
func serveOnce(c net.Conn, mode string, got chan<- *capturedReq) {
	defer c.Close()
	c.SetDeadline(time.Now().Add(ioWait))
	req, err := http.ReadRequest(bufio.NewReader(c))
	if err != nil {
		got <- nil
		return
	}
	io.Copy(io.Discard, req.Body)
	got <- &capturedReq{Host: req.Host, Header: req.Header.Clone()}
	switch mode {
	case "eof": // close without a response
	case "garbage":
		io.WriteString(c, "SPECTER? this is not an HTTP response\r\n\r\n")
	default:
		io.WriteString(c, "HTTP/1.1 200 OK\r\nContent-Length: 2\r\nConnection: close\r\nX-Verif-Tunnel: 1\r\n\r\nok")
	}
}

func setProto(r *http.Request, p string) {
	switch p {
	case "2":
		r.Proto, r.ProtoMajor, r.ProtoMinor = "HTTP/2.0", 2, 0
	case "3":
		r.Proto, r.ProtoMajor, r.ProtoMinor = "HTTP/3.0", 3, 0
	default:
		r.Proto, r.ProtoMajor, r.ProtoMinor = "HTTP/1.1", 1, 1
	}
}

func pickProxy(g *gateway.Gateway, proto string) http.Handler {
	if proto == "3" {
		return g.VerifH3ProxyHandler()
	}
	return g.VerifProxyHandler()
}

func inbound(method, host, hostHeader, peer, proto, path string) *http.Request {
	var body io.Reader
	if method == http.MethodPost || method == http.MethodPut {
		body = strings.NewReader("verif-payload")
	}
	r := httptest.NewRequest(method, "https://"+hostHeader+path, body)
	r.Host = hostHeader
	r.RemoteAddr = net.JoinHostPort(peer, "51000")
	r.TLS = &tls.ConnectionState{ServerName: host, HandshakeComplete: true, Version: tls.VersionTLS13, CipherSuite: tls.TLS_AES_128_GCM_SHA256}
	setProto(r, proto)
	return r
}

func runRewrite() {
	type gw struct {
		g  *gateway.Gateway
		ft *fakeTun
	}
	gws := map[int]*gw{}
	verifkit.EachCase(func(i int, raw json.RawMessage) {
		c := verifkit.Decode[struct {
			Proto      string
			Method     string
			Port       int
			Peer       string
			Host       string
			HostHeader string
			Root       string
			Hdrs       []hdr
			Judged     []string
		}](raw)
		w := gws[c.Port]
		if w == nil {
			ft := &fakeTun{}
			w = &gw{g: newGateway(ft, []string{c.Root}, c.Port, "", "", gateway.InternalHandlers{}), ft: ft}
			gws[c.Port] = w
		}
		got := make(chan *capturedReq, 4)
		w.ft.reset(func(ctx context.Context, l *protocol.Link) (net.Conn, error) {
			c1, c2 := net.Pipe()
			go serveOnce(c2, "ok", got)
			return c1, nil
		})
		if c.Method == "" {
			c.Method = http.MethodGet
		}
		r := inbound(c.Method, c.Host, c.HostHeader, c.Peer, c.Proto, "/some/path?x=1")
		r.Header.Set("User-Agent", "verif")
		r.Header.Set("X-Custom", "keep")
		for _, h := range c.Hdrs {
			r.Header[http.CanonicalHeaderKey(h.N)] = append([]string(nil), h.V...)
		}
		rec := httptest.NewRecorder()
		obs := map[string]any{}
		if p := verifkit.Recover(func() { pickProxy(w.g, c.Proto).ServeHTTP(rec, r) }); p != "" {
			obs["panic"] = p
		}
		obs["status"] = rec.Code
		links, _ := w.ft.seen()
		obs["dials"] = len(links)
		if len(links) > 0 {
			obs["hostname"] = links[0].GetHostname()
		}
		select {
		case cr := <-got:
			if cr != nil {
				out := map[string][]string{}
				for _, n := range c.Judged {
					if v, ok := cr.Header[http.CanonicalHeaderKey(n)]; ok {
						out[n] = v
					}
				}
				obs["out"] = out
				obs["outHost"] = cr.Host
				obs["custom"] = cr.Header.Get("X-Custom")
			}
		case <-time.After(ioWait):
			obs["timeout"] = true
		}
		verifkit.Answer(i, obs)
	})
}

// ---------------------------------------------------------------------------------------------
// C36 status

type netTimeout struct{}

func (netTimeout) Error() string   { return "verif: i/o timeout" }
func (netTimeout) Timeout() bool   { return true }
func (netTimeout) Temporary() bool { return false }

var _ net.Error = netTimeout{}

func mkErr(class, wrap string) error {
	var e error
	switch class {
	case "notfound":
		e = tun.ErrDestinationNotFound
	case "notconnected":
		e = tun.ErrTunnelClientNotConnected
	case "nodirect":
		e = transport.ErrNoDirect
	case "timeout_ctx":
		e = context.DeadlineExceeded
	case "timeout_net":
		e = netTimeout{}
	case "canceled", "canceled_gone":
		e = context.Canceled
	case "eof":
		e = io.EOF
	case "lookup":
		e = tun.ErrLookupFailed
	default:
		e = errors.New("verif: synthetic forwarding failure")
	}
	switch wrap {
	case "fmt":
		e = fmt.Errorf("verif: dialing client: %w", e)
	case "operr":
		e = &net.OpError{Op: "dial", Net: "tcp", Err: e}
	}
	return e
}

func frameErr(frame string) error {
	switch frame {
	case "NO_DIRECT":
		return tun.ErrTunnelClientNotConnected
	case "UNKNOWN_ERROR":
		return errors.New("verif: client refuses")
	}
	return nil
}

// playClient plays a tunnel client on a raw stream: sends its status frame, then echoes.
func playClient(c net.Conn, frame string) {
	defer c.Close()
	c.SetDeadline(time.Now().Add(ioWait))
	tun.SendStatusProto(c, frameErr(frame))
	if frame != "OK" {
		return
	}
	buf := make([]byte, 64)
	for {
		n, err := c.Read(buf)
		if n > 0 {
			if _, werr := c.Write(buf[:n]); werr != nil {
				return
			}
		}
		if err != nil {
			return
		}
	}
}

func hostFor(kind string) string {
	switch kind {
	case "ip":
		return "192.0.2.1"
	case "short":
		return "example.com"
	}
	return "app.example.com"
}

type statusCase struct {
	Proto, Class, Wrap, Path, InProto, Host, Frame string
}

func runStatus() {
	ft := &fakeTun{}
	g := newGateway(ft, []string{"example.com"}, 443, "", "", gateway.InternalHandlers{})
	srv := httptest.NewServer(g.VerifHTTPRouter())
	defer srv.Close()

	dialer := func(c statusCase) func(ctx context.Context, l *protocol.Link) (net.Conn, error) {
		return func(ctx context.Context, l *protocol.Link) (net.Conn, error) {
			if c.Class == "ok" {
				c1, c2 := net.Pipe()
				go playClient(c2, c.Frame)
				return c1, nil
			}
			return nil, mkErr(c.Class, c.Wrap)
		}
	}

	verifkit.EachCase(func(i int, raw json.RawMessage) {
		c := verifkit.Decode[statusCase](raw)
		obs := map[string]any{}
		switch c.Proto {
		case "http":
			host := hostFor(c.Host)
			r := inbound("GET", host, host, "203.0.113.7", c.InProto, "/x")
			cancel := func() {}
			if c.Class == "canceled_gone" { // the caller has gone away: nobody observes a status
				ctx, cf := context.WithCancel(r.Context())
				cf()
				r = r.WithContext(ctx)
				cancel = cf
			}
			rec := httptest.NewRecorder()
			got := make(chan *capturedReq, 4)
			switch c.Path {
			case "dial":
				ft.reset(dialer(c))
			case "stream":
				ft.reset(func(ctx context.Context, l *protocol.Link) (net.Conn, error) {
					c1, c2 := net.Pipe()
					go serveOnce(c2, c.Class, got)
					return c1, nil
				})
			}
			if p := verifkit.Recover(func() {
				if c.Path == "handler" {
					// what ReverseProxy hands to ErrorHandler: the outbound request (URL host = tunnel host)
					g.VerifErrorHandler(rec, r, mkErr(c.Class, c.Wrap))
				} else {
					pickProxy(g, c.InProto).ServeHTTP(rec, r)
				}
			}); p != "" {
				obs["panic"] = p
			}
			cancel()
			obs["status"] = rec.Result().StatusCode
			obs["body"] = truncate(rec.Body.String(), 80)
			links, _ := ft.seen()
			obs["dials"] = len(links)
		case "tcp":
			ft.reset(dialer(c))
			gwSide, caller := net.Pipe()
			done := make(chan error, 1)
			ctx, cancel := context.WithCancel(context.Background())
			go func() { done <- g.VerifForwardTCP(ctx, hostFor(c.Host), "198.51.100.9:40000", gwSide) }()
			caller.SetDeadline(time.Now().Add(ioWait))
			obs["frame"] = "NONE"
			if err := rpc.Send(caller, &protocol.TunnelStatus{}); err != nil { // the "poke"
				obs["pokeErr"] = err.Error()
			}
			st := &protocol.TunnelStatus{}
			if err := rpc.BoundedReceive(caller, st, 1024); err != nil {
				obs["recvErr"] = err.Error()
			} else {
				obs["frame"] = st.GetStatus().String()
				obs["frameError"] = truncate(st.GetError(), 80)
			}
			tcpTail(caller, obs)
			caller.Close()
			cancel()
			select {
			case err := <-done:
				obs["returned"] = err == nil
			case <-time.After(ioWait):
				obs["stuck"] = true
			}
			links, _ := ft.seen()
			obs["dials"] = len(links)
		case "connect":
			ft.reset(dialer(c))
			conn, err := net.DialTimeout("tcp", srv.Listener.Addr().String(), ioWait)
			if err != nil {
				fmt.Fprintln(os.Stderr, "connect: cannot reach the local test server:", err)
				verifkit.Flush()
				os.Exit(4)
			}
			conn.SetDeadline(time.Now().Add(ioWait))
			target := net.JoinHostPort(hostFor(c.Host), "443")
			fmt.Fprintf(conn, "CONNECT %s HTTP/1.1\r\nHost: %s\r\n\r\n", target, target)
			br := bufio.NewReader(conn)
			resp, err := http.ReadResponse(br, &http.Request{Method: http.MethodConnect})
			if err != nil {
				obs["status"] = 0
				obs["recvErr"] = err.Error()
			} else {
				obs["status"] = resp.StatusCode
				if resp.StatusCode == http.StatusOK {
					tcpTail(&bufferedConn{Conn: conn, r: br}, obs)
				} else {
					b, _ := io.ReadAll(io.LimitReader(resp.Body, 200))
					obs["body"] = truncate(string(b), 80)
				}
			}
			conn.Close()
			links, _ := ft.seen()
			obs["dials"] = len(links)
		}
		verifkit.Answer(i, obs)
	})
}

type bufferedConn struct {
	net.Conn
	r *bufio.Reader
}

func (b *bufferedConn) Read(p []byte) (int, error) { return b.r.Read(p) }

// tcpTail: after the first frame / the 200, either the stream carries data end to end or it is closed.
func tcpTail(caller io.ReadWriter, obs map[string]any) {
	probe := []byte("verif-ping-0123")
	werr := make(chan error, 1)
	go func() { _, err := caller.Write(probe); werr <- err }()
	buf := make([]byte, len(probe))
	n, err := io.ReadFull(caller, buf)
	switch {
	case err == nil && bytes.Equal(buf, probe):
		obs["tail"] = "piped"
	case errors.Is(err, io.EOF) || errors.Is(err, io.ErrUnexpectedEOF) || errors.Is(err, io.ErrClosedPipe) || isReset(err):
		obs["tail"] = "closed"
	default:
		obs["tail"] = fmt.Sprintf("other(n=%d,err=%v)", n, err)
	}
}

func isReset(err error) bool {
	return err != nil && (strings.Contains(err.Error(), "reset by peer") || strings.Contains(err.Error(), "broken pipe"))
}

func truncate(s string, n int) string {
	if len(s) > n {
		return s[:n]
	}
	return s
}

// ---------------------------------------------------------------------------------------------
// C37 admin

func runAdmin() {
	doc := gateway.VerifEndpointsDoc()
	verifkit.EachCase(func(i int, raw json.RawMessage) {
		c := verifkit.Decode[struct {
			Cfg    struct{ U, P string }
			Path   string
			Method string
			Auth   struct{ Kind, U, P string }
			Node   bool
			Fwd    bool
		}](raw)
		var mu sync.Mutex
		reached := []string{}
		mk := func(name string) http.Handler {
			return http.HandlerFunc(func(w http.ResponseWriter, r *http.Request) {
				mu.Lock()
				reached = append(reached, name)
				mu.Unlock()
				w.Header().Set("X-Verif-Internal", name)
				w.WriteHeader(http.StatusOK)
				io.WriteString(w, "internal:"+name)
			})
		}
		ft := &fakeTun{}
		// one gateway per case: the apex carries a 10 req/s limiter (gateway.New), which must not shape the verdict
		g := newGateway(ft, []string{"example.com"}, 443, c.Cfg.U, c.Cfg.P, gateway.InternalHandlers{
			Acme: mk("acme"), Chord: mk("chord"), TunnelServer: mk("tun"), Migrator: mk("migrator"),
		})
		h := g.VerifApexHandler()
		r := httptest.NewRequest(c.Method, "https://example.com/", nil)
		r.URL.Path, r.URL.RawPath, r.RequestURI = c.Path, "", c.Path
		r.RemoteAddr = "203.0.113.7:51000"
		setProto(r, "2")
		cred := base64.StdEncoding.EncodeToString([]byte(c.Auth.U + ":" + c.Auth.P))
		switch c.Auth.Kind {
		case "basic":
			r.Header.Set("Authorization", "Basic "+cred)
		case "basic-lc":
			r.Header.Set("Authorization", "basic "+cred)
		case "bearer":
			r.Header.Set("Authorization", "Bearer "+cred)
		case "raw": // credentials not base64-encoded
			r.Header.Set("Authorization", "Basic "+c.Auth.U+":"+c.Auth.P)
		}
		if c.Node {
			r.Header.Set(gateway.VerifHeaderNodeAddress, "10.9.8.7:4444")
		}
		if c.Fwd {
			r.Header.Set(gateway.VerifHeaderForwarded, "true")
		}
		rec := httptest.NewRecorder()
		obs := map[string]any{}
		if p := verifkit.Recover(func() { h.ServeHTTP(rec, r) }); p != "" {
			obs["panic"] = p
		}
		_, internals := ft.seen()
		body := rec.Body.String()
		mu.Lock()
		obs["reached"] = reached
		mu.Unlock()
		obs["dialer"] = len(internals) > 0
		obs["status"] = rec.Code
		obs["doc"] = doc != "" && strings.Contains(body, truncate(doc, 40))
		obs["challenge"] = rec.Header().Get("WWW-Authenticate") != ""
		obs["len"] = len(body)
		verifkit.Answer(i, obs)
	})
}

func main() {
	if len(os.Args) < 2 {
		fmt.Fprintln(os.Stderr, "usage: gateway resolve|rewrite|status|admin")
		os.Exit(2)
	}
	switch os.Args[1] {
	case "resolve":
		runResolve()
	case "rewrite":
		runRewrite()
	case "status":
		runStatus()
	case "admin":
		runAdmin()
	default:
		fmt.Fprintln(os.Stderr, "unknown family", os.Args[1])
		os.Exit(2)
	}
	verifkit.Flush()
}
