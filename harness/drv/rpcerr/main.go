//go:build verif

// Driver for Errors.tla (C14): every case (method, origin error, plain / %w-wrapped) is sent through a real
// twirp server/client pair: chord.Server over a stub VNode that returns the origin error, the generated twirp
// VNodeService/KVService servers behind net/http on an in-memory connection, rpc.DynamicChordClient and
// chord.RemoteNode on the calling side.  The driver reports what both sides see.
package main

import (
	"context"
	"encoding/json"
	"errors"
	"fmt"
	"net"
	"net/http"
	"sync"
	"time"

	implchord "go.miragespace.co/specter/chord"
	"go.miragespace.co/specter/internal/verifkit"
	"go.miragespace.co/specter/spec/chord"
	"go.miragespace.co/specter/spec/protocol"
	"go.miragespace.co/specter/spec/rpc"
	"go.miragespace.co/specter/spec/transport"

	"github.com/go-chi/chi/v5"
	"github.com/twitchtv/twirp"
	"go.uber.org/zap"
)

// ---------------------------------------------------------------- stub node (origin side)

type stub struct {
	mu    sync.Mutex
	err   error
	calls []string
}

func (s *stub) hit(m string) error {
	s.mu.Lock()
	defer s.mu.Unlock()
	s.calls = append(s.calls, m)
	return s.err
}

var stubIdentity = &protocol.Node{Id: 4242, Address: "stub:1"}

func (s *stub) ID() uint64               { return stubIdentity.GetId() }
func (s *stub) Identity() *protocol.Node { return stubIdentity }
func (s *stub) Ping() error              { return s.hit("Ping") }
func (s *stub) Notify(chord.VNode) error { return s.hit("Notify") }
func (s *stub) FindSuccessor(uint64) (chord.VNode, error) {
	if err := s.hit("FindSuccessor"); err != nil {
		return nil, err
	}
	return s, nil
}
func (s *stub) GetSuccessors() ([]chord.VNode, error) {
	if err := s.hit("GetSuccessors"); err != nil {
		return nil, err
	}
	return []chord.VNode{s}, nil
}
func (s *stub) GetPredecessor() (chord.VNode, error) {
	if err := s.hit("GetPredecessor"); err != nil {
		return nil, err
	}
	return s, nil
}
func (s *stub) RequestToJoin(chord.VNode) (chord.VNode, []chord.VNode, error) {
	if err := s.hit("RequestToJoin"); err != nil {
		return nil, nil, err
	}
	return s, []chord.VNode{s}, nil
}
func (s *stub) FinishJoin(bool, bool) error      { return s.hit("FinishJoin") }
func (s *stub) RequestToLeave(chord.VNode) error { return s.hit("RequestToLeave") }
func (s *stub) FinishLeave(bool, bool) error     { return s.hit("FinishLeave") }
func (s *stub) Put(context.Context, []byte, []byte) error {
	return s.hit("Put")
}
func (s *stub) Get(context.Context, []byte) ([]byte, error) { return []byte("v"), s.hit("Get") }
func (s *stub) Delete(context.Context, []byte) error        { return s.hit("Delete") }
func (s *stub) PrefixAppend(context.Context, []byte, []byte) error {
	return s.hit("PrefixAppend")
}
func (s *stub) PrefixList(context.Context, []byte) ([][]byte, error) {
	return [][]byte{[]byte("c")}, s.hit("PrefixList")
}
func (s *stub) PrefixContains(context.Context, []byte, []byte) (bool, error) {
	return true, s.hit("PrefixContains")
}
func (s *stub) PrefixRemove(context.Context, []byte, []byte) error {
	return s.hit("PrefixRemove")
}
func (s *stub) Acquire(context.Context, []byte, time.Duration) (uint64, error) {
	return 7, s.hit("Acquire")
}
func (s *stub) Renew(context.Context, []byte, time.Duration, uint64) (uint64, error) {
	return 8, s.hit("Renew")
}
func (s *stub) Release(context.Context, []byte, uint64) error { return s.hit("Release") }
func (s *stub) Import(context.Context, [][]byte, []*protocol.KVTransfer) error {
	return s.hit("Import")
}
func (s *stub) ListKeys(context.Context, []byte) ([]*protocol.KeyComposite, error) {
	return nil, s.hit("ListKeys")
}

var _ chord.VNode = (*stub)(nil)

// ---------------------------------------------------------------- in-memory transport

type memListener struct {
	ch   chan net.Conn
	done chan struct{}
}

func (l *memListener) Accept() (net.Conn, error) {
	select {
	case c := <-l.ch:
		return c, nil
	case <-l.done:
		return nil, net.ErrClosed
	}
}
func (l *memListener) Close() error   { return nil }
func (l *memListener) Addr() net.Addr { return &net.UnixAddr{Name: "mem", Net: "mem"} }

type memTransport struct{ l *memListener }

func (t *memTransport) Identity() *protocol.Node { return &protocol.Node{Id: 1, Address: "caller:1"} }
func (t *memTransport) DialStream(ctx context.Context, peer *protocol.Node, kind protocol.Stream_Type) (net.Conn, error) {
	c1, c2 := net.Pipe()
	select {
	case t.l.ch <- c1:
		return c2, nil
	case <-ctx.Done():
		return nil, ctx.Err()
	}
}
func (t *memTransport) AcceptStream() <-chan *transport.StreamDelegate     { return nil }
func (t *memTransport) ListConnected() []transport.ConnectedPeer           { return nil }
func (t *memTransport) SupportDatagram() bool                              { return false }
func (t *memTransport) ReceiveDatagram() <-chan *transport.DatagramDelegate { return nil }
func (t *memTransport) SendDatagram(*protocol.Node, []byte) error          { return errors.New("no datagram") }

var _ transport.Transport = (*memTransport)(nil)

// ---------------------------------------------------------------- origin errors

var defined = map[string]error{
	"ErrJoinInvalidState":     chord.ErrJoinInvalidState,
	"ErrJoinTransferFailure":  chord.ErrJoinTransferFailure,
	"ErrJoinInvalidSuccessor": chord.ErrJoinInvalidSuccessor,
	"ErrLeaveInvalidState":    chord.ErrLeaveInvalidState,
	"ErrLeaveTransferFailure": chord.ErrLeaveTransferFailure,
	"ErrKVStaleOwnership":     chord.ErrKVStaleOwnership,
	"ErrKVPendingTransfer":    chord.ErrKVPendingTransfer,
	"ErrNodeGone":             chord.ErrNodeGone,
	"ErrNodeNotStarted":       chord.ErrNodeNotStarted,
	"ErrNodeNoSuccessor":      chord.ErrNodeNoSuccessor,
	"ErrNodeNil":              chord.ErrNodeNil,
	"ErrDuplicateJoinerID":    chord.ErrDuplicateJoinerID,
	"ErrKVSimpleConflict":     chord.ErrKVSimpleConflict,
	"ErrKVPrefixConflict":     chord.ErrKVPrefixConflict,
	"ErrKVLeaseConflict":      chord.ErrKVLeaseConflict,
	"ErrKVLeaseExpired":       chord.ErrKVLeaseExpired,
	"ErrKVLeaseInvalidTTL":    chord.ErrKVLeaseInvalidTTL,
	"ErrKVHashFnChanged":      chord.ErrKVHashFnChanged,
}

type tcase struct {
	M    string // method
	Err  string // error name | "deadline" | "arbitrary"
	Wrap  bool
	Shape string // plain | single (%w) | join (errors.Join) | two (second of two %w) | is (a type whose Is method names the deadline)
}

// isDeadline declares itself to be the deadline through an Is method, as the timeout errors of package net do; it wraps nothing
type isDeadline struct{}

func (isDeadline) Error() string        { return "dial tcp 10.1.2.3:7946: i/o timeout" }
func (isDeadline) Timeout() bool        { return true }
func (isDeadline) Is(target error) bool { return target == context.DeadlineExceeded }

type obs struct {
	Reached      bool   `json:"reached"`      // the stub method was invoked through the RPC path
	OriginRetry  bool   `json:"originRetry"`  // chord.ErrorIsRetryable at the origin
	ClientNil    bool   `json:"clientNil"`    // the caller saw no error
	ClientIs     bool   `json:"clientIs"`     // errors.Is(clientErr, base origin error)
	ClientEq     bool   `json:"clientEq"`     // clientErr == base origin error (as `err == chord.ErrX` call sites do)
	ClientRetry  bool   `json:"clientRetry"`  // chord.ErrorIsRetryable at the caller
	ClientText   string `json:"clientText"`
	TwirpCode    string `json:"twirpCode"`
	ClientIsTwrp bool   `json:"clientIsTwirp"`
	Panic        string `json:"panic,omitempty"`
}

func main() {
	ctx, cancel := context.WithCancel(context.Background())
	defer cancel()

	st := &stub{}
	lis := &memListener{ch: make(chan net.Conn), done: make(chan struct{})}
	tr := &memTransport{l: lis}
	logger := zap.NewNop()

	// the server side, assembled as chord/local_rpc.go getRPCHandler does
	srv := &implchord.Server{
		LocalNode: st,
		Factory: func(n *protocol.Node) (chord.VNode, error) {
			return &stub{}, nil
		},
	}
	ns := protocol.NewVNodeServiceServer(srv)
	ks := protocol.NewKVServiceServer(srv)
	router := chi.NewRouter()
	router.Mount(ns.PathPrefix(), rpc.ExtractContext(ns))
	router.Mount(ks.PathPrefix(), rpc.ExtractContext(ks))
	hs := &http.Server{Handler: router, BaseContext: func(net.Listener) context.Context { return ctx }}
	go hs.Serve(lis)

	// the calling side
	client := rpc.DynamicChordClient(rpc.DisablePooling(ctx), tr)
	remote, err := implchord.NewRemoteNode(ctx, logger, client, stubIdentity)
	if err != nil {
		panic(err)
	}
	peer := &stub{}

	call := func(m string) error {
		k, v := []byte("k"), []byte("v")
		switch m {
		case "Ping":
			return remote.Ping()
		case "Notify":
			return remote.Notify(peer)
		case "FindSuccessor":
			_, err := remote.FindSuccessor(77)
			return err
		case "GetSuccessors":
			_, err := remote.GetSuccessors()
			return err
		case "GetPredecessor":
			_, err := remote.GetPredecessor()
			return err
		case "RequestToJoin":
			_, _, err := remote.RequestToJoin(peer)
			return err
		case "FinishJoin":
			return remote.FinishJoin(true, true)
		case "RequestToLeave":
			return remote.RequestToLeave(peer)
		case "FinishLeave":
			return remote.FinishLeave(true, true)
		case "Put":
			return remote.Put(ctx, k, v)
		case "Get":
			_, err := remote.Get(ctx, k)
			return err
		case "Delete":
			return remote.Delete(ctx, k)
		case "PrefixAppend":
			return remote.PrefixAppend(ctx, k, v)
		case "PrefixList":
			_, err := remote.PrefixList(ctx, k)
			return err
		case "PrefixContains":
			_, err := remote.PrefixContains(ctx, k, v)
			return err
		case "PrefixRemove":
			return remote.PrefixRemove(ctx, k, v)
		case "Acquire":
			_, err := remote.Acquire(ctx, k, time.Minute)
			return err
		case "Renew":
			_, err := remote.Renew(ctx, k, time.Minute, 3)
			return err
		case "Release":
			return remote.Release(ctx, k, 3)
		case "Import":
			return remote.Import(ctx, [][]byte{k}, []*protocol.KVTransfer{{SimpleValue: v}})
		case "ListKeys":
			_, err := remote.ListKeys(ctx, k)
			return err
		}
		panic("unknown method " + m)
	}

	wrapTexts := []string{"storing KV to successor: %w", "handling request: %w", "%w (while transferring)"}
	r := verifkit.Rand(14)

	verifkit.EachCase(func(i int, raw json.RawMessage) {
		c := verifkit.Decode[tcase](raw)
		var base error
		switch c.Err {
		case "deadline":
			base = context.DeadlineExceeded
		case "arbitrary":
			base = fmt.Errorf("disk on fire #%d", r.Intn(1000))
		case "lookalike": // not a DHT error at the origin (errors.Is sees nothing): only its text ends like one
			switch r.Intn(4) {
			case 0:
				base = fmt.Errorf("storage backend: %v", chord.ErrKVStaleOwnership)
			case 1:
				base = errors.New("upstream replied: " + context.DeadlineExceeded.Error())
			case 2:
				base = fmt.Errorf("peer said: %v", chord.ErrKVPendingTransfer)
			default:
				base = fmt.Errorf("joining: %s", chord.ErrJoinInvalidState.Error())
			}
		default:
			var ok bool
			if base, ok = defined[c.Err]; !ok {
				panic("unknown error " + c.Err)
			}
		}
		origin := base
		if c.Wrap {
			switch c.Shape {
			case "", "single":
				origin = fmt.Errorf(wrapTexts[r.Intn(len(wrapTexts))], base)
			case "join":
				if r.Intn(2) == 0 {
					origin = errors.Join(errors.New("closing the batch failed"), base)
				} else {
					origin = fmt.Errorf("handling request: %w", errors.Join(base, errors.New("rollback failed too")))
				}
			case "two":
				origin = fmt.Errorf("%w: %w", errors.New("transfer aborted"), base)
			case "is":
				origin = fmt.Errorf("reaching the successor: %w", isDeadline{})
			default:
				panic("shape " + c.Shape)
			}
		}
		st.mu.Lock()
		st.err = origin
		st.calls = nil
		st.mu.Unlock()

		var o obs
		var cerr error
		o.Panic = verifkit.Recover(func() { cerr = call(c.M) })
		st.mu.Lock()
		o.Reached = len(st.calls) == 1 && st.calls[0] == c.M
		st.mu.Unlock()
		o.OriginRetry = chord.ErrorIsRetryable(origin)
		o.ClientNil = cerr == nil
		if cerr != nil {
			o.ClientIs = errors.Is(cerr, base)
			o.ClientEq = cerr == base
			o.ClientRetry = chord.ErrorIsRetryable(cerr)
			o.ClientText = cerr.Error()
			var te twirp.Error
			if errors.As(cerr, &te) {
				o.ClientIsTwrp = true
				o.TwirpCode = string(te.Code())
			}
		}
		verifkit.Answer(i, o)
	})
}
