//go:build verif

// Driver for RingMath.tla (C11, C12): replays TLC-enumerated cases into spec/chord's functions.
package main

import (
	"encoding/json"
	"fmt"
	"math/big"
	"os"
	"sort"
	"strconv"

	"go.miragespace.co/specter/internal/verifkit"
	"go.miragespace.co/specter/spec/chord"
	"go.miragespace.co/specter/spec/protocol"
)

const ring = uint64(1) << 48

type stub struct {
	chord.VNode
	id   uint64
	addr string
}

func (s *stub) ID() uint64 { return s.id }
func (s *stub) Identity() *protocol.Node {
	return &protocol.Node{Id: s.id, Address: s.addr}
}

// monotone embeddings of 0..m-1 into the 2^48 ring
func embeddings(m uint64) [][]uint64 {
	var out [][]uint64
	mk := func(f func(x uint64) uint64) {
		e := make([]uint64, m)
		for x := uint64(0); x < m; x++ {
			e[x] = f(x)
		}
		out = append(out, e)
	}
	mk(func(x uint64) uint64 { return x * (ring / m) })               // scaled
	mk(func(x uint64) uint64 { return x })                            // adjacent at 0
	mk(func(x uint64) uint64 { return ring - m + x })                 // adjacent at 2^48-1
	mk(func(x uint64) uint64 { return ring/2 - m/2 + x })             // adjacent around the middle
	mk(func(x uint64) uint64 { return x*(ring/m) + (ring/m - 1) })    // scaled, shifted to the top of each cell
	r := verifkit.Rand(11)
	for k := 0; k < 6; k++ {
		set := map[uint64]bool{}
		if k%2 == 0 { // pin the extremes
			set[0] = true
			set[ring-1] = true
		}
		for uint64(len(set)) < m {
			set[r.Uint64()%ring] = true
		}
		e := make([]uint64, 0, m)
		for v := range set {
			e = append(e, v)
		}
		sort.Slice(e, func(i, j int) bool { return e[i] < e[j] })
		out = append(out, e)
	}
	return out
}

func main() {
	fam := os.Args[1]
	switch fam {
	case "between":
		m, _ := strconv.ParseUint(os.Args[2], 10, 64)
		embs := embeddings(m)
		verifkit.EachCase(func(i int, raw json.RawMessage) {
			c := verifkit.Decode[struct {
				L, T, H uint64
				Incl    bool
			}](raw)
			res := make([]bool, len(embs))
			for k, e := range embs {
				res[k] = chord.Between(e[c.L], e[c.T], e[c.H], c.Incl)
			}
			verifkit.Answer(i, res)
		})
	case "sum":
		// case (x,y) in W-bit words with a 2^B ring; x = hi*2^B + lo.  lo -> lo*2^(48-B) is a group
		// homomorphism Z_2^B -> Z_2^48, hi is spread over the 16 bits above the ring.
		w, _ := strconv.ParseUint(os.Args[2], 10, 64)
		b, _ := strconv.ParseUint(os.Args[3], 10, 64)
		_ = w
		verifkit.EachCase(func(i int, raw json.RawMessage) {
			c := verifkit.Decode[struct{ X, Y uint64 }](raw)
			emb := func(v uint64, variant int) uint64 {
				lo := v % (1 << b)
				hi := v >> b
				hmax := uint64(1)<<(w-b) - 1
				var top uint64
				switch variant {
				case 0:
					top = hi * (0xffff / hmax) // hi = hmax -> all 16 top bits set
				default:
					top = hi
				}
				return top<<48 | lo<<(48-b)
			}
			res := make([]uint64, 2)
			for v := 0; v < 2; v++ {
				s := chord.ModuloSum(emb(c.X, v), emb(c.Y, v))
				if s%(1<<(48-b)) != 0 || s >= ring {
					res[v] = 1 << 62 // off the embedded sub-ring: cannot be a correct sum
				} else {
					res[v] = s >> (48 - b)
				}
			}
			verifkit.Answer(i, res)
		})
	case "succ":
		mkNode := func(p [2]uint64) chord.VNode {
			if p[0] == 0 && p[1] == 0 {
				return nil
			}
			return &stub{id: p[0] << 40, addr: fmt.Sprintf("10.0.0.%d:443", p[1])}
		}
		verifkit.EachCase(func(i int, raw json.RawMessage) {
			c := verifkit.Decode[struct {
				Imm    [2]uint64
				Cands  [][2]uint64
				MaxLen int
				Key    int
			}](raw)
			cands := make([]chord.VNode, len(c.Cands))
			for k, p := range c.Cands {
				cands[k] = mkNode(p)
			}
			var out []chord.VNode
			if c.Key == 1 {
				out = chord.MakeSuccListByID(mkNode(c.Imm), cands, c.MaxLen)
			} else {
				out = chord.MakeSuccListByAddress(mkNode(c.Imm), cands, c.MaxLen)
			}
			res := make([][2]uint64, len(out))
			for k, n := range out {
				if n == nil {
					res[k] = [2]uint64{0, 0}
					continue
				}
				var a uint64
				fmt.Sscanf(n.Identity().GetAddress(), "10.0.0.%d:443", &a)
				res[k] = [2]uint64{n.ID() >> 40, a}
			}
			verifkit.Answer(i, res)
		})
	case "extra":
		// direct full-width probes judged against math/big (auxiliary to the embedded TLC cases)
		r := verifkit.Rand(23)
		mod := new(big.Int).SetUint64(ring)
		edge := []uint64{0, 1, ring - 1, ring, ring + 1, 1<<63 - 1, 1 << 63, 1<<64 - 1, 1<<64 - 2, ring*3 - 1}
		n, bad := 0, 0
		var firstBad string
		try := func(x, y uint64) {
			n++
			want := new(big.Int).Add(new(big.Int).SetUint64(x), new(big.Int).SetUint64(y))
			want.Mod(want, mod)
			got := chord.ModuloSum(x, y)
			if got != want.Uint64() {
				bad++
				if firstBad == "" {
					firstBad = fmt.Sprintf("ModuloSum(%d,%d)=%d want %s", x, y, got, want)
				}
			}
		}
		for _, x := range edge {
			for _, y := range edge {
				try(x, y)
			}
		}
		for k := 0; k < 20000; k++ {
			try(r.Uint64(), r.Uint64())
		}
		verifkit.Emit(map[string]any{"kind": "sum-fullwidth", "n": n, "bad": bad, "first": firstBad})
		hn, hbad := 0, 0
		var maxHash uint64
		for k := 0; k < 200000; k++ {
			l := r.Intn(40)
			buf := make([]byte, l)
			r.Read(buf)
			h := chord.Hash(buf)
			hn++
			if h >= ring {
				hbad++
			}
			if h > maxHash {
				maxHash = h
			}
		}
		verifkit.Emit(map[string]any{"kind": "hash-range", "n": hn, "bad": hbad, "maxTop8": maxHash >> 40})
		verifkit.Flush()
	}
}
