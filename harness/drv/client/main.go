//go:build verif

// Driver for ClientCfg.tla (C43, C44, C45, C50): runs the real tun/client code on cases / behaviours
// produced by TLC.  Injected as cmd/verifdrv_client by go build -overlay.
//
//	client sync  <dir>    C43  cases on stdin: {"tun":[{"tg":bool,"hn":string}],"reg":[string]}
//	client nodes          C50  cases on stdin: ["none"|"stale"|"f10"|"f20"|"f30"|"mix", ...]
//	client conn  <dir>    C44  scenarios on stdin (see connScenario)
//	client mkcfg <path>   C45  configuration spec on stdin, written with the real writeFile
//	client save  <path>   C45  loads <path>, applies the change on stdin, saves with the real writeFile
//	client parse          C45  {"path":...} on stdin, parsed with the real NewConfig
package main

import (
	"bufio"
	"context"
	"crypto/sha1"
	"encoding/base64"
	"encoding/hex"
	"encoding/json"
	"errors"
	"fmt"
	"io"
	"log"
	"net"
	"net/http"
	"net/http/httptest"
	"os"
	"path/filepath"
	"sort"
	"strings"
	"sync"
	"time"

	"go.miragespace.co/specter/internal/verifkit"
	rttimpl "go.miragespace.co/specter/rtt"
	"go.miragespace.co/specter/spec/pki"
	"go.miragespace.co/specter/spec/protocol"
	"go.miragespace.co/specter/spec/rpc"
	"go.miragespace.co/specter/spec/rtt"
	"go.miragespace.co/specter/tun/client"
	"go.miragespace.co/specter/util/verifhook"

	"go.uber.org/zap"
	"go.uber.org/zap/zapcore"
)

// ---------------------------------------------------------------------------------------------
// scripted gateway RPC

type fakeTC struct {
	protocol.TunnelService
	protocol.KeylessService
	mu         sync.Mutex
	registered []string
	gen        []string
	genCalls   int          // GenerateHostname calls so far
	genFailed  int
	failGen    map[int]bool // calls (1-based) that fail
	published  []string
	removed    []string
	// called once, from inside the next RegisteredHostnames call (the sync is then between reading its tunnel list and installing the result)
	onRegistered func()
}

func (f *fakeTC) RegisteredHostnames(ctx context.Context, _ *protocol.RegisteredHostnamesRequest) (*protocol.RegisteredHostnamesResponse, error) {
	f.mu.Lock()
	cb := f.onRegistered
	f.onRegistered = nil
	regs := append([]string{}, f.registered...)
	f.mu.Unlock()
	if cb != nil {
		cb()
	}
	return &protocol.RegisteredHostnamesResponse{Hostnames: regs}, nil
}

func (f *fakeTC) GenerateHostname(ctx context.Context, _ *protocol.GenerateHostnameRequest) (*protocol.GenerateHostnameResponse, error) {
	f.mu.Lock()
	defer f.mu.Unlock()
	f.genCalls++
	if f.failGen[f.genCalls] {
		f.genFailed++
		return nil, errors.New("verif: gateway unavailable")
	}
	name := fmt.Sprintf("g%d", len(f.gen)+1)
	f.gen = append(f.gen, name)
	return &protocol.GenerateHostnameResponse{Hostname: name}, nil
}

func (f *fakeTC) PublishTunnel(ctx context.Context, req *protocol.PublishTunnelRequest) (*protocol.PublishTunnelResponse, error) {
	f.mu.Lock()
	defer f.mu.Unlock()
	f.published = append(f.published, req.GetHostname())
	return &protocol.PublishTunnelResponse{Published: req.GetServers()}, nil
}

func (f *fakeTC) UnpublishTunnel(ctx context.Context, req *protocol.UnpublishTunnelRequest) (*protocol.UnpublishTunnelResponse, error) {
	f.mu.Lock()
	defer f.mu.Unlock()
	f.removed = append(f.removed, req.GetHostname())
	return &protocol.UnpublishTunnelResponse{}, nil
}

func (f *fakeTC) ReleaseTunnel(ctx context.Context, req *protocol.ReleaseTunnelRequest) (*protocol.ReleaseTunnelResponse, error) {
	f.mu.Lock()
	defer f.mu.Unlock()
	f.removed = append(f.removed, req.GetHostname())
	return &protocol.ReleaseTunnelResponse{}, nil
}

func die(code int, format string, a ...any) {
	verifkit.Flush()
	fmt.Fprintf(os.Stderr, format+"\n", a...)
	os.Exit(code)
}

// clientLogger: nil = no logging
var clientLogger *zap.Logger

func newClient(cfg *client.Config, rec rtt.Recorder) (*client.Client, *fakeTC) {
	lg := clientLogger
	if lg == nil {
		lg = zap.NewNop()
	}
	c, err := client.NewClient(context.Background(), client.ClientConfig{
		Logger:        lg,
		Configuration: cfg,
		Recorder:      rec,
	})
	if err != nil {
		die(3, "NewClient: %v", err)
	}
	f := &fakeTC{}
	c.VerifSetTunnelClient(f)
	return c, f
}

// ---------------------------------------------------------------------------------------------
// C43

type tunKind struct {
	Tg bool
	Hn string
}
type syncCase struct {
	Tun  []tunKind
	Reg  []string
	Fail []int // GenerateHostname calls that fail
	Rm   int   // > 0: while the sync is waiting for the registered hostnames, the tunnel at this position (1-based) is released / unpublished by another caller
}

func runSync(dir string) {
	ctx := context.Background()
	path := filepath.Join(dir, "sync.yaml")
	c, f := newClient(client.VerifMemConfig(path, "gw.test:443", "", "", nil), nil)
	defer c.Close()
	verifkit.EachCase(func(i int, raw json.RawMessage) {
		cs := verifkit.Decode[syncCase](raw)
		tunnels := make([]client.Tunnel, len(cs.Tun))
		for k, t := range cs.Tun {
			if t.Tg {
				tunnels[k].Target = fmt.Sprintf("tcp://127.0.0.1:%d", 2000+k)
			}
			tunnels[k].Hostname = t.Hn
		}
		want := append([]client.Tunnel{}, tunnels...)
		c.VerifResetTunnels(tunnels)
		c.VerifAddConnection(&protocol.Node{Id: 1, Address: "gw1.test:443"})
		f.gen, f.published = nil, nil
		f.genCalls, f.genFailed, f.failGen = 0, 0, map[int]bool{}
		for _, k := range cs.Fail {
			f.failGen[k] = true
		}
		reg := append([]string{}, cs.Reg...)
		verifkit.Rand(int64(i)).Shuffle(len(reg), func(a, b int) { reg[a], reg[b] = reg[b], reg[a] })
		f.registered = reg
		if cs.Rm > 0 && cs.Rm <= len(tunnels) && tunnels[cs.Rm-1].Hostname != "" {
			gone := tunnels[cs.Rm-1].Hostname
			f.onRegistered = func() {
				if i%2 == 0 {
					c.ReleaseTunnel(ctx, client.Tunnel{Hostname: gone})
				} else {
					c.UnpublishTunnel(ctx, client.Tunnel{Hostname: gone})
				}
			}
		}
		p := verifkit.Recover(func() { c.SyncConfigTunnels(ctx) })
		cur := c.GetCurrentConfig()
		out := make([]string, len(cur.Tunnels))
		same := len(cur.Tunnels) == len(want)
		for k, t := range cur.Tunnels {
			out[k] = t.Hostname
			if same && t.Target != want[k].Target {
				same = false
			}
		}
		gen := f.gen
		if gen == nil {
			gen = []string{}
		}
		verifkit.Answer(i, map[string]any{"out": out, "gen": gen, "nfail": f.genFailed, "same": same, "panic": p, "regorder": reg, "rm": cs.Rm})
		f.failGen = nil
	})
}

// ---------------------------------------------------------------------------------------------
// C50

type clockSetter interface {
	VerifSetNow(func() time.Time)
}

func runNodes() {
	base := time.Now()
	rec := rttimpl.NewInstrumentation(20)
	cs, ok := any(rec).(clockSetter)
	if !ok {
		die(4, "rtt.Instrumentation has no controllable clock (overlay copy of rtt/rtt.go missing)")
	}
	now := base
	cs.VerifSetNow(func() time.Time { return now })
	var recorder rtt.Recorder = rec
	if len(os.Args) > 2 && os.Args[2] == "norecorder" { // a client built without a recorder: every node is unmeasured
		recorder = nil
	}
	c, _ := newClient(client.VerifMemConfig("/nonexistent/verif.yaml", "gw.test:443", "", "", nil), recorder)
	defer c.Close()
	used := []string{}
	verifkit.EachCase(func(i int, raw json.RawMessage) {
		kinds := verifkit.Decode[[]string](raw)
		r := verifkit.Rand(1000 + int64(i))
		for _, k := range used { // the real recorder is shared: forget the previous case's measurements
			rec.Drop(k)
		}
		used = used[:0]
		c.VerifResetTunnels(nil)
		// addresses in ascending order: position k of the case = k-th connection in address order
		addrs := map[string]bool{}
		for len(addrs) < len(kinds) {
			addrs[fmt.Sprintf("gw-%04d.test:%d", r.Intn(10000), 1000+r.Intn(9000))] = true
		}
		sorted := make([]string, 0, len(addrs))
		for a := range addrs {
			sorted = append(sorted, a)
		}
		sort.Strings(sorted)
		idx := map[string]int{}
		nodes := make([]*protocol.Node, len(kinds))
		for k := range kinds {
			nodes[k] = &protocol.Node{Id: uint64(100 + r.Intn(1000)), Address: sorted[k]}
			idx[sorted[k]] = k + 1
		}
		for _, k := range r.Perm(len(kinds)) { // insertion order is irrelevant to the sorted map; vary it anyway
			c.VerifAddConnection(nodes[k])
		}
		ms := float64(time.Millisecond)
		staleAges := []time.Duration{11 * time.Second, time.Minute, time.Hour}
		freshAges := []time.Duration{0, 3 * time.Second, 9 * time.Second}
		record := func(key string, age time.Duration, v float64) {
			now = base.Add(-age)
			rec.RecordLatency(key, v*ms)
		}
		for k, kind := range kinds {
			key := rtt.MakeMeasurementKey(nodes[k])
			used = append(used, key)
			sa := staleAges[r.Intn(len(staleAges))]
			fa := freshAges[r.Intn(len(freshAges))]
			switch kind {
			case "none":
				if r.Intn(2) == 0 { // sent/lost counters without any latency sample
					rec.RecordSent(key)
					rec.RecordLost(key)
				}
			case "stale":
				record(key, sa, 1)
			case "f10":
				if r.Intn(2) == 0 {
					record(key, fa, 10)
				} else {
					record(key, 9*time.Second, 5)
					record(key, fa/2, 15)
				}
			case "f20":
				record(key, fa, 20)
			case "s2":
				record(key, fa, 10.2)
			case "s4":
				if r.Intn(2) == 0 {
					record(key, fa, 10.4)
				} else {
					record(key, 7*time.Second, 10.1)
					record(key, fa/2, 10.7)
				}
			case "f30":
				if r.Intn(2) == 0 {
					record(key, fa, 30)
				} else {
					record(key, 8*time.Second, 20)
					record(key, fa/2, 40)
				}
			case "mix":
				record(key, sa, 1)
				record(key, fa, 25)
			default:
				die(3, "unknown node kind %q", kind)
			}
		}
		now = base
		var got []*protocol.Node
		p := verifkit.Recover(func() { got = c.GetConnectedNodes() })
		out := make([]int, len(got))
		for k, n := range got {
			out[k] = idx[n.GetAddress()] // 0 = not a connected node
		}
		if p != "" {
			out = []int{-1}
		}
		verifkit.Answer(i, out)
	})
}

// ---------------------------------------------------------------------------------------------
// C44

type connStep struct {
	Do   string            `json:"do"`   // start | step | run
	Op   string            `json:"op"`   // chg<k> | conn<k>
	Kind string            `json:"kind"` // rebuild | reload | remove          (start of a change)
	New  map[string]string `json:"new"`  // host -> t1 | t2 | none             (start of a change)
	H    string            `json:"h"`    // hostname                           (start of a connection)
}

type connScenario struct {
	Name  string            `json:"name"`
	Init  map[string]string `json:"init"`
	Kind  map[string]string `json:"kind"` // host -> http:listener | http:headerHost | http:headerMode | http:insecure | http:timeout | tcp
	Steps []connStep        `json:"steps"`
	Probe bool              `json:"probe"` // after the behaviour: one more connection per hostname
}

type targets struct {
	l1, l2 *httptest.Server
	l3     *httptest.Server // TLS, certificate not trusted by the client
}

func handler(name string) http.Handler {
	return http.HandlerFunc(func(w http.ResponseWriter, r *http.Request) {
		if r.URL.Path == "/slow" {
			time.Sleep(120 * time.Millisecond)
		}
		w.Header().Set("Connection", "close")
		fmt.Fprintf(w, "%s|%s", name, r.Host)
	})
}

func hostOf(s *httptest.Server) string { return strings.TrimPrefix(strings.TrimPrefix(s.URL, "https://"), "http://") }

var hosts = []string{"h1", "h2"}

func (t *targets) tunnel(host, kind, val string) (client.Tunnel, bool) {
	if val == "none" || val == "" {
		return client.Tunnel{}, false
	}
	two := val == "t2"
	tn := client.Tunnel{Hostname: host}
	switch kind {
	case "http:listener":
		tn.Target = t.l1.URL
		if two {
			tn.Target = t.l2.URL
		}
	case "http:headerHost":
		tn.Target = t.l1.URL
		tn.ProxyHeaderMode = "custom"
		tn.ProxyHeaderHost = "one.test"
		if two {
			tn.ProxyHeaderHost = "two.test"
		}
	case "http:headerHostLegacy": // no header mode: the optional Host override of the legacy behaviour
		tn.Target = t.l1.URL
		tn.ProxyHeaderHost = "one.test"
		if two {
			tn.ProxyHeaderHost = "two.test"
		}
	case "http:headerMode":
		tn.Target = t.l1.URL
		tn.ProxyHeaderMode = "target"
		if two {
			tn.ProxyHeaderMode = "hostname"
		}
	case "http:insecure":
		tn.Target = t.l3.URL
		tn.Insecure = !two
	case "http:timeout":
		tn.Target = t.l1.URL
		if two {
			tn.ProxyHeaderTimeout = 30 * time.Millisecond
		}
	case "tcp":
		tn.Target = "tcp://" + hostOf(t.l1)
		if two {
			tn.Target = "tcp://" + hostOf(t.l2)
		}
	default:
		die(3, "unknown hostname kind %q", kind)
	}
	return tn, true
}

type connObs struct {
	Dropped bool   `json:"dropped,omitempty"`
	Code    int    `json:"code,omitempty"`
	Reached string `json:"reached,omitempty"`
	Host    string `json:"host,omitempty"`
	Err     string `json:"err,omitempty"`
}

// classify maps what the target side saw back to the configured value it corresponds to
func (t *targets) classify(host, kind string, o connObs) string {
	if o.Dropped {
		return "dropped"
	}
	is := func(val string) bool {
		two := val == "t2"
		switch kind {
		case "http:listener", "tcp":
			return o.Code == 200 && ((!two && o.Reached == "L1") || (two && o.Reached == "L2"))
		case "http:headerHost", "http:headerHostLegacy":
			return o.Code == 200 && o.Reached == "L1" && ((!two && o.Host == "one.test") || (two && o.Host == "two.test"))
		case "http:headerMode":
			return o.Code == 200 && o.Reached == "L1" && ((!two && o.Host == hostOf(t.l1)) || (two && o.Host == host))
		case "http:insecure":
			return (!two && o.Code == 200 && o.Reached == "L3") || (two && o.Code == 502)
		case "http:timeout":
			return (!two && o.Code == 200 && o.Reached == "L1") || (two && o.Code == 502)
		}
		return false
	}
	switch {
	case is("t1") && !is("t2"):
		return "t1"
	case is("t2") && !is("t1"):
		return "t2"
	}
	b, _ := json.Marshal(o)
	return "other:" + string(b)
}

type connRun struct {
	id      int
	host    string
	op      *verifkit.Op
	cEnd    net.Conn
	goCh    chan struct{}
	resCh   chan connObs
	started int
	ended   int
	obs     connObs
	got     string
	have    bool
	blocked bool
}

type chgRun struct {
	id      int
	kind    string
	new     map[string]string
	op      *verifkit.Op
	started int
	ended   int // 0 = not finished
	blocked bool
}

func clientIO(conn net.Conn, tcp bool, host, path string, goCh chan struct{}, res chan connObs) {
	<-goCh
	defer conn.Close()
	conn.SetDeadline(time.Now().Add(20 * time.Second))
	dropped := func(err error) bool {
		return errors.Is(err, io.EOF) || errors.Is(err, io.ErrClosedPipe) || errors.Is(err, io.ErrUnexpectedEOF)
	}
	if tcp {
		status := &protocol.TunnelStatus{}
		if err := rpc.BoundedReceive(conn, status, 1024); err != nil {
			if dropped(err) {
				res <- connObs{Dropped: true}
			} else {
				res <- connObs{Err: "status: " + err.Error()}
			}
			return
		}
		if status.GetStatus() != protocol.TunnelStatusCode_STATUS_OK {
			res <- connObs{Err: "status: " + status.GetStatus().String() + " " + status.GetError()}
			return
		}
	}
	req := fmt.Sprintf("GET %s HTTP/1.1\r\nHost: %s\r\nConnection: close\r\n\r\n", path, host)
	if _, err := io.WriteString(conn, req); err != nil {
		if dropped(err) {
			res <- connObs{Dropped: true}
		} else {
			res <- connObs{Err: "write: " + err.Error()}
		}
		return
	}
	resp, err := http.ReadResponse(bufio.NewReader(conn), nil)
	if err != nil {
		if dropped(err) {
			res <- connObs{Dropped: true}
		} else {
			res <- connObs{Err: "read: " + err.Error()}
		}
		return
	}
	body, _ := io.ReadAll(resp.Body)
	resp.Body.Close()
	o := connObs{Code: resp.StatusCode}
	if resp.StatusCode == 200 {
		if a, b, ok := strings.Cut(string(body), "|"); ok {
			o.Reached, o.Host = a, b
		}
	}
	res <- o
}

func runConn(dir string) {
	ctx := context.Background()
	t := &targets{
		l1: httptest.NewServer(handler("L1")),
		l2: httptest.NewServer(handler("L2")),
		l3: httptest.NewUnstartedServer(handler("L3")),
	}
	t.l3.Config.ErrorLog = log.New(io.Discard, "", 0) // rejected handshakes are part of the "insecure" variant
	t.l3.StartTLS()
	defer t.l1.Close()
	defer t.l2.Close()
	defer t.l3.Close()
	_, keyPem := pki.GeneratePrivKey()

	verifkit.EachCase(func(i int, raw json.RawMessage) {
		sc := verifkit.Decode[connScenario](raw)
		path := filepath.Join(dir, fmt.Sprintf("conn-%d.yaml", i))
		defer os.RemoveAll(path)
		list := func(m map[string]string) []client.Tunnel {
			out := []client.Tunnel{}
			for _, h := range hosts {
				if tn, ok := t.tunnel(h, sc.Kind[h], m[h]); ok {
					out = append(out, tn)
				}
			}
			return out
		}
		cfg := client.VerifMemConfig(path, "gw.test:443", "", keyPem, list(sc.Init))
		// a failing save is reported through the logger: that report is a gate ("the process is inside the save")
		clientLogger = zap.New(zapcore.NewCore(zapcore.NewJSONEncoder(zap.NewProductionEncoderConfig()), zapcore.AddSync(io.Discard), zapcore.ErrorLevel),
			zap.Hooks(func(e zapcore.Entry) error {
				if strings.HasPrefix(e.Message, "Error saving to config file") {
					verifhook.At("client:save:log", 0)
				}
				return nil
			}))
		c, f := newClient(cfg, nil)
		clientLogger = nil
		c.VerifAddConnection(&protocol.Node{Id: 1, Address: "gw1.test:443"})
		// start-up as in production: the first sync builds the router and saves the file
		c.SyncConfigTunnels(ctx)

		sched := verifkit.NewSched()
		sched.StepWait = 400 * time.Millisecond
		sched.Gates = func(p string) bool { return strings.HasPrefix(p, "client:") }
		verifhook.AtFn = sched.At
		defer func() { verifhook.AtFn = nil }()

		seq := 0
		conns := map[string]*connRun{}
		chgs := map[string]*chgRun{}
		var order []string
		events := []map[string]any{}
		applied := []map[string]any{{"end": 0, "cfg": sc.Init}}

		collect := func(cr *connRun) { // the connection's handler returned: wait for what the peer saw
			select {
			case cr.obs = <-cr.resCh:
			case <-time.After(4 * time.Second):
				cr.obs = connObs{Err: "no answer"}
			}
			cr.have = true
			cr.got = t.classify(cr.host, sc.Kind[cr.host], cr.obs)
			seq++
			cr.ended = seq
		}
		after := func(name, status string) {
			if cr := conns[name]; cr != nil {
				if status == "done" && !cr.have {
					collect(cr)
				}
				if status == "blocked" {
					cr.blocked = true
				}
			}
			if ch := chgs[name]; ch != nil {
				if status == "done" && ch.ended == 0 {
					seq++
					ch.ended = seq
					applied = append(applied, map[string]any{"end": seq, "cfg": ch.new})
				}
				if status == "blocked" {
					ch.blocked = true
				}
			}
		}
		release := func(cr *connRun) {
			select {
			case <-cr.goCh:
			default:
				close(cr.goCh)
			}
		}
		startConn := func(name, h string) string {
			cEnd, sEnd := net.Pipe()
			kind := sc.Kind[h]
			pathq := "/"
			if kind == "http:timeout" {
				pathq = "/slow"
			}
			cr := &connRun{id: len(conns) + 1, host: h, cEnd: cEnd, goCh: make(chan struct{}), resCh: make(chan connObs, 1)}
			conns[name] = cr
			order = append(order, name)
			go clientIO(cEnd, kind == "tcp", h, pathq, cr.goCh, cr.resCh)
			alpn := protocol.Link_HTTP
			if kind == "tcp" {
				alpn = protocol.Link_TCP
			}
			seq++
			cr.started = seq
			var st string
			cr.op, st = sched.Start(name, func() any {
				err := c.VerifHandle(ctx, &protocol.Link{Alpn: alpn, Hostname: h, Remote: "192.0.2.1:1"}, sEnd)
				if err != nil {
					return err.Error()
				}
				return nil
			})
			if st == "done" || st == "blocked" { // no gate reached: let the peer talk
				release(cr)
				if st == "blocked" {
					st = sched.Step(cr.op)
				}
			}
			return st
		}
		startChg := func(name string, s connStep) string {
			ch := &chgRun{id: len(chgs) + 1, kind: s.Kind, new: s.New}
			chgs[name] = ch
			order = append(order, name)
			seq++
			ch.started = seq
			var fn func() any
			switch s.Kind {
			case "rebuild":
				fn = func() any { c.RebuildTunnels(list(s.New)); return nil }
			case "rebuild-nosave":
				// the configuration file cannot be saved (its place is taken by a non-empty directory): the change still applies
				os.Remove(path)
				if err := os.MkdirAll(filepath.Join(path, "occupied"), 0o755); err != nil {
					die(3, "blocking the configuration file: %v", err)
				}
				fn = func() any { c.RebuildTunnels(list(s.New)); return nil }
			case "reload":
				// the user edited the file, then SIGHUP / the reload endpoint
				if err := client.VerifMemConfig(path, "gw.test:443", "", keyPem, list(s.New)).VerifWriteFile(); err != nil {
					die(3, "writing reload file: %v", err)
				}
				fn = func() any { c.VerifReload(ctx); return nil }
			case "remove":
				cur := applied[len(applied)-1]["cfg"].(map[string]string)
				gone := ""
				for _, h := range hosts {
					if cur[h] != "none" && s.New[h] == "none" {
						gone = h
					}
				}
				if gone == "" {
					die(3, "remove step without a removed hostname")
				}
				if (i+ch.id)%2 == 0 {
					fn = func() any { return fmt.Sprint(c.UnpublishTunnel(ctx, client.Tunnel{Hostname: gone})) }
				} else {
					fn = func() any { return fmt.Sprint(c.ReleaseTunnel(ctx, client.Tunnel{Hostname: gone})) }
				}
			default:
				die(3, "unknown change kind %q", s.Kind)
			}
			var st string
			ch.op, st = sched.Start(name, fn)
			return st
		}
		opOf := func(name string) *verifkit.Op {
			if cr := conns[name]; cr != nil {
				return cr.op
			}
			if ch := chgs[name]; ch != nil {
				return ch.op
			}
			die(3, "step on unknown operation %q", name)
			return nil
		}
		advance := func(name string, toEnd bool) string {
			op := opOf(name)
			if cr := conns[name]; cr != nil {
				release(cr)
			}
			st := sched.Step(op)
			for k := 0; toEnd && st != "done" && k < 6; k++ {
				if st == "blocked" { // waiting for another parked operation: give up for now
					break
				}
				st = sched.Step(op)
			}
			return st
		}
		do := func(s connStep) {
			var st string
			switch s.Do {
			case "start":
				if strings.HasPrefix(s.Op, "conn") {
					st = startConn(s.Op, s.H)
				} else {
					st = startChg(s.Op, s)
				}
			case "step":
				st = advance(s.Op, false)
			case "run":
				st = advance(s.Op, true)
			default:
				die(3, "unknown step %q", s.Do)
			}
			after(s.Op, st)
			events = append(events, map[string]any{"do": s.Do, "op": s.Op, "status": st})
		}
		for _, s := range sc.Steps {
			do(s)
		}
		// drain: everything still parked or blocked runs to its end
		stuck := []string{}
		for round := 0; round < 4; round++ {
			stuck = stuck[:0]
			for _, name := range order {
				op := opOf(name)
				if op.Done {
					after(name, "done")
					continue
				}
				st := advance(name, true)
				after(name, st)
				events = append(events, map[string]any{"do": "drain", "op": name, "status": st})
				if st != "done" {
					stuck = append(stuck, name)
				}
			}
			if len(stuck) == 0 {
				break
			}
		}
		if sc.Probe && len(stuck) == 0 {
			for _, h := range hosts {
				name := fmt.Sprintf("conn%d", len(conns)+1)
				do(connStep{Do: "start", Op: name, H: h})
				if !conns[name].op.Done {
					do(connStep{Do: "run", Op: name})
				}
			}
		}
		verifhook.AtFn = nil

		// final configuration as the client reports it
		final := map[string]string{}
		if len(stuck) == 0 {
			cur := c.GetCurrentConfig()
			for _, h := range hosts {
				final[h] = "none"
			}
			for _, tn := range cur.Tunnels {
				for _, v := range []string{"t1", "t2"} {
					if w, ok := t.tunnel(tn.Hostname, sc.Kind[tn.Hostname], v); ok && w.Target == tn.Target && w.Insecure == tn.Insecure &&
						w.ProxyHeaderHost == tn.ProxyHeaderHost && w.ProxyHeaderMode == tn.ProxyHeaderMode && w.ProxyHeaderTimeout == tn.ProxyHeaderTimeout {
						final[tn.Hostname] = v
					}
				}
			}
		}
		co := []map[string]any{}
		for _, name := range order {
			if cr := conns[name]; cr != nil {
				co = append(co, map[string]any{"op": name, "h": cr.host, "start": cr.started, "end": cr.ended, "got": cr.got,
					"obs": cr.obs, "blocked": cr.blocked, "result": cr.op.Result})
			}
		}
		ch := []map[string]any{}
		for _, name := range order {
			if x := chgs[name]; x != nil {
				ch = append(ch, map[string]any{"op": name, "kind": x.kind, "new": x.new, "start": x.started, "end": x.ended, "blocked": x.blocked,
					"result": x.op.Result})
			}
		}
		verifkit.Answer(i, map[string]any{"events": events, "conns": co, "changes": ch, "applied": applied, "final": final,
			"stuck": stuck, "proxies": c.VerifProxyHosts(), "routes": c.VerifRoutes(), "removed": f.removed})
		if len(stuck) == 0 {
			c.Close()
		}
	})
}

// ---------------------------------------------------------------------------------------------
// C45

type tunnelSpec struct {
	Target   string `json:"target"`
	Hostname string `json:"hostname"`
	Insecure bool   `json:"insecure"`
	Timeout  int64  `json:"timeout"` // ms
	Host     string `json:"host"`
	Mode     string `json:"mode"`
}

type cfgSpec struct {
	Apex    *string      `json:"apex"`
	Cert    *string      `json:"cert"` // "gen:<seed>:<bytes>" = deterministic PEM blob, "" = none
	Key     *string      `json:"key"`  // "gen" = fresh ed25519 key
	Tunnels []tunnelSpec `json:"tunnels"`
	SetTun  bool         `json:"set_tunnels"`
}

func pemBlob(spec string) string {
	var seed, n int
	if _, err := fmt.Sscanf(spec, "gen:%d:%d", &seed, &n); err != nil {
		return spec
	}
	buf := make([]byte, n)
	x := uint32(seed*2654435761 + 12345)
	for k := range buf {
		x = x*1664525 + 1013904223
		buf[k] = byte(x >> 24)
	}
	enc := base64.StdEncoding.EncodeToString(buf)
	var sb strings.Builder
	sb.WriteString("-----BEGIN CERTIFICATE-----\n")
	for len(enc) > 64 {
		sb.WriteString(enc[:64] + "\n")
		enc = enc[64:]
	}
	sb.WriteString(enc + "\n-----END CERTIFICATE-----\n")
	return sb.String()
}

func toTunnels(ts []tunnelSpec) []client.Tunnel {
	out := make([]client.Tunnel, len(ts))
	for k, t := range ts {
		out[k] = client.Tunnel{Target: t.Target, Hostname: t.Hostname, Insecure: t.Insecure,
			ProxyHeaderTimeout: time.Duration(t.Timeout) * time.Millisecond, ProxyHeaderHost: t.Host, ProxyHeaderMode: t.Mode}
	}
	return out
}

func sum(s string) string {
	if s == "" {
		return ""
	}
	h := sha1.Sum([]byte(s))
	return hex.EncodeToString(h[:])
}

func summary(cfg *client.Config) map[string]any {
	tl := [][]any{}
	for _, t := range cfg.Tunnels {
		tl = append(tl, []any{t.Target, t.Hostname, t.Insecure, int64(t.ProxyHeaderTimeout / time.Millisecond), t.ProxyHeaderHost, t.ProxyHeaderMode})
	}
	return map[string]any{"version": cfg.Version, "apex": cfg.Apex, "cert": sum(cfg.Certificate), "key": sum(cfg.PrivKey), "tunnels": tl}
}

func readSpec() cfgSpec {
	b, err := io.ReadAll(os.Stdin)
	if err != nil {
		die(3, "stdin: %v", err)
	}
	var s cfgSpec
	if err := json.Unmarshal(b, &s); err != nil {
		die(3, "bad spec: %v", err)
	}
	return s
}

func runMkcfg(path string) {
	s := readSpec()
	apex, cert, key := "gw.test:443", "", ""
	if s.Apex != nil {
		apex = *s.Apex
	}
	if s.Cert != nil {
		cert = pemBlob(*s.Cert)
	}
	if s.Key != nil && *s.Key == "gen" {
		_, key = pki.GeneratePrivKey()
	}
	cfg := client.VerifMemConfig(path, apex, cert, key, toTunnels(s.Tunnels))
	if err := cfg.VerifWriteFile(); err != nil {
		die(3, "mkcfg: %v", err)
	}
	verifkit.Emit(summary(cfg))
	verifkit.Flush()
}

func runSave(path string) {
	s := readSpec()
	cfg, err := client.NewConfig(path)
	if err != nil {
		die(3, "loading the old configuration: %v", err)
	}
	old := summary(cfg)
	if s.Apex != nil {
		cfg.Apex = *s.Apex
	}
	if s.Cert != nil {
		cfg.Certificate = pemBlob(*s.Cert)
	}
	if s.SetTun {
		cfg.Tunnels = toTunnels(s.Tunnels)
	}
	os.Stderr.WriteString("VERIF-SAVE-BEGIN\n")
	err = cfg.VerifWriteFile()
	os.Stderr.WriteString("VERIF-SAVE-END\n")
	res := map[string]any{"old": old, "new": summary(cfg), "err": ""}
	if err != nil {
		res["err"] = err.Error()
	}
	verifkit.Emit(res)
	verifkit.Flush()
}

func runParse() {
	verifkit.EachCase(func(i int, raw json.RawMessage) {
		c := verifkit.Decode[struct{ Path string }](raw)
		var cfg *client.Config
		var err error
		p := verifkit.Recover(func() { cfg, err = client.NewConfig(c.Path) })
		switch {
		case p != "":
			verifkit.Answer(i, map[string]any{"ok": false, "err": "panic: " + p})
		case err != nil:
			verifkit.Answer(i, map[string]any{"ok": false, "err": err.Error()})
		default:
			verifkit.Answer(i, map[string]any{"ok": true, "cfg": summary(cfg)})
		}
	})
}

func main() {
	if len(os.Args) < 2 {
		die(3, "usage: client sync|nodes|conn|mkcfg|save|parse ...")
	}
	arg := func(k int) string {
		if len(os.Args) <= k {
			die(3, "missing argument")
		}
		return os.Args[k]
	}
	switch os.Args[1] {
	case "sync":
		runSync(arg(2))
	case "nodes":
		runNodes()
	case "conn":
		runConn(arg(2))
	case "mkcfg":
		runMkcfg(arg(2))
	case "save":
		runSave(arg(2))
	case "parse":
		runParse()
	default:
		die(3, "unknown mode %q", os.Args[1])
	}
	verifkit.Flush()
}
