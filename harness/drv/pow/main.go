//go:build verif

// Driver for Pow.tla (C31).  Families: bits | accept | stamp | solve (os.Args[1]).
package main

import (
	"crypto/ed25519"
	"crypto/sha256"
	"encoding/base64"
	"encoding/binary"
	"encoding/hex"
	"encoding/json"
	"fmt"
	"hash/fnv"
	"math/bits"
	"math/rand"
	"os"
	"strconv"
	"strings"
	"time"

	"go.miragespace.co/specter/internal/verifkit"
	"go.miragespace.co/specter/spec/pow"
	"go.miragespace.co/specter/spec/protocol"
	"go.miragespace.co/specter/util/hashcash"
)

// caseKey derives the random stream of a case from its content (not its position), so that a replayed case is concretised identically
func caseKey(raw []byte) int64 {
	h := fnv.New64a()
	h.Write(raw)
	return int64(h.Sum64() >> 1)
}

// reference: number of leading zero bits of a hash
func leadingZeros(h []byte) int {
	n := 0
	for _, b := range h {
		if b == 0 {
			n += 8
			continue
		}
		return n + bits.LeadingZeros8(b)
	}
	return n
}

func stampLZ(stamp string) int {
	h := sha256.Sum256([]byte(stamp))
	return leadingZeros(h[:])
}

func newKey(r *rand.Rand) (ed25519.PublicKey, ed25519.PrivateKey) {
	seed := make([]byte, ed25519.SeedSize)
	r.Read(seed)
	priv := ed25519.NewKeyFromSeed(seed)
	return priv.Public().(ed25519.PublicKey), priv
}

func subjectFn(variant int) func(ed25519.PublicKey) string {
	switch variant % 3 {
	case 0: // as pki/client_rpc.go and the tunnel server do
		return func(p ed25519.PublicKey) string {
			h := sha256.Sum256(p)
			return base64.URLEncoding.EncodeToString(h[:])
		}
	case 1:
		return func(p ed25519.PublicKey) string { return hex.EncodeToString(p) }
	default:
		return func(p ed25519.PublicKey) string { return "client-" + base64.RawURLEncoding.EncodeToString(p[:9]) }
	}
}

// swapCase flips the case of the first letter it finds (of every letter when the subject is long)
func swapCase(s string) string {
	b := []byte(s)
	n := 0
	for i, c := range b {
		switch {
		case c >= 'a' && c <= 'z':
			b[i] = c - 32
			n++
		case c >= 'A' && c <= 'Z':
			b[i] = c + 32
			n++
		}
		if n > 0 && len(s) < 12 {
			break
		}
	}
	return string(b)
}

func nonce(r *rand.Rand) string {
	b := make([]byte, 16)
	r.Read(b)
	return base64.RawURLEncoding.EncodeToString(b)
}

// search a counter such that the complete stamp satisfies want(lz); returns the stamp
func search(prefix string, start uint32, want func(lz int) bool) (string, uint32) {
	sb := make([]byte, 4)
	for c := start; ; c++ {
		binary.LittleEndian.PutUint32(sb, c)
		s := prefix + ":" + base64.RawURLEncoding.EncodeToString(sb)
		if want(stampLZ(s)) {
			return s, c
		}
		if c-start > 1<<28 {
			panic("search exhausted")
		}
	}
}

func prefixOf(diff int, exp int64, subj, nonce string) string {
	return strings.Join([]string{"H", strconv.Itoa(diff), strconv.FormatInt(exp, 10), subj, nonce, "SHA-256"}, ":")
}

type acase struct {
	Sig, Diff, Subj, Zeros bool
	Off                    int64
	D                      int
	Expires                int64
}

type aobs struct {
	Accept bool   `json:"accept"`
	Err    string `json:"err,omitempty"`
	Bound  bool   `json:"bound"` // on acceptance: decoded key = presented key and decoded subject = expected subject
	// the abstract conditions recomputed on the concrete proof (harness sanity: must equal the case)
	FSig, FDiff, FSubj, FZeros bool
	How                        string `json:"how"`
	Stamp                      string `json:"stamp"`
}

func accept(key int64, c acase, variant int) aobs {
	r := rand.New(rand.NewSource(verifkit.Seed()*1000003 + key + int64(variant)))
	pubA, privA := newKey(r)
	pubB, privB := newKey(r)
	getSubject := subjectFn(variant)
	subject := getSubject(pubA)
	how := []string{}

	stampSubj := subject
	if !c.Subj {
		switch r.Intn(5) {
		case 4: // the expected subject in another letter case (base64 and host-like subjects are case sensitive)
			stampSubj = swapCase(subject)
			how = append(how, "subject-other-case")
			if stampSubj == subject {
				stampSubj = subject + "x"
			}
		case 0:
			stampSubj = getSubject(pubB)
			how = append(how, "subject-of-other-key")
		case 1:
			stampSubj = subject + "x"
			how = append(how, "subject-suffix")
		case 2:
			stampSubj = "*"
			how = append(how, "subject-star")
		default:
			stampSubj = ""
			how = append(how, "subject-empty")
		}
	}
	diff := c.D
	if !c.Diff {
		alts := []int{c.D - 1, c.D - 2, c.D + 1, c.D + 4, 0}
		diff = alts[r.Intn(len(alts))]
		how = append(how, fmt.Sprintf("difficulty-%d", diff))
	}
	exp := time.Now().Unix() + c.Off
	prefix := prefixOf(diff, exp, stampSubj, nonce(r))
	if c.Off == -100000000 { // a stamp without any expiry: the field is empty
		prefix = strings.Join([]string{"H", strconv.Itoa(diff), "", stampSubj, nonce(r), "SHA-256"}, ":")
		how = append(how, "no-expiry")
	}
	var stamp string
	var ctr uint32
	if c.Zeros {
		need := c.D
		if diff > need {
			need = diff
		}
		stamp, ctr = search(prefix, 0, func(lz int) bool { return lz >= need })
	} else {
		// one bit short of the requirement (still enough for a lower difficulty written in the stamp)
		stamp, ctr = search(prefix, 0, func(lz int) bool { return lz == c.D-1 })
	}
	var sig []byte
	if c.Sig {
		sig = ed25519.Sign(privA, []byte(stamp))
	} else {
		switch r.Intn(3) {
		case 0:
			sig = ed25519.Sign(privB, []byte(stamp))
			how = append(how, "signed-by-other-key")
		case 1:
			sig = ed25519.Sign(privA, []byte(stamp))
			sig[r.Intn(len(sig))] ^= 1 << uint(r.Intn(8))
			how = append(how, "signature-bit-flipped")
		default:
			other, _ := search(prefix, ctr+1, func(lz int) bool { return true })
			sig = ed25519.Sign(privA, []byte(other))
			how = append(how, "signature-of-other-stamp")
		}
	}
	req := &protocol.ProofOfWork{PubKey: pubA, Signature: sig, Solution: stamp}
	params := pow.Parameters{GetSubject: getSubject, Expires: time.Duration(c.Expires) * time.Second, Difficulty: c.D}
	var o aobs
	var dec *pow.Decoded
	var err error
	if p := verifkit.Recover(func() { dec, err = pow.VerifySolution(req, params) }); p != "" {
		o.Err = "panic: " + p
	} else if err != nil {
		o.Err = err.Error()
	} else {
		o.Accept = true
		o.Bound = dec != nil && string(dec.PubKey) == string(pubA) && dec.Subject == subject
	}
	o.FSig = ed25519.Verify(pubA, []byte(stamp), sig)
	o.FDiff = diff == c.D
	o.FSubj = stampSubj == subject
	o.FZeros = stampLZ(stamp) >= c.D
	o.How = strings.Join(how, ",")
	o.Stamp = stamp
	return o
}

func main() {
	fam := os.Args[1]
	variants := 3
	if len(os.Args) > 2 {
		variants, _ = strconv.Atoi(os.Args[2])
	}
	switch fam {
	case "bits":
		verifkit.EachCase(func(i int, raw json.RawMessage) {
			c := verifkit.Decode[struct {
				Bits, N int
				Hi      []int
				Tails   [][]int
			}](raw)
			res := make([]any, len(c.Tails))
			for k, t := range c.Tails {
				h := make([]byte, 0, 4)
				for _, v := range c.Hi {
					h = append(h, byte(v))
				}
				for _, v := range t {
					h = append(h, byte(v))
				}
				var ok bool
				if p := verifkit.Recover(func() { ok = hashcash.VerifyBitsC31(h[:c.N], c.Bits, c.N) }); p != "" {
					res[k] = "panic: " + p
				} else {
					res[k] = ok
				}
			}
			verifkit.Answer(i, res)
		})
	case "accept":
		verifkit.EachCase(func(i int, raw json.RawMessage) {
			c := verifkit.Decode[acase](raw)
			out := make([]aobs, variants)
			for v := range out {
				out[v] = accept(caseKey(raw), c, v)
			}
			verifkit.Answer(i, out)
		})
	case "stamp":
		verifkit.EachCase(func(i int, raw json.RawMessage) {
			c := verifkit.Decode[struct{ Bits, Rel int }](raw)
			type sobs struct {
				Hashcash bool   `json:"hashcash"` // Parse + Verify accepted
				Pow      bool   `json:"pow"`      // VerifySolution accepted
				LZ       int    `json:"lz"`
				Stamp    string `json:"stamp"`
				Err      string `json:"err,omitempty"`
			}
			out := make([]sobs, variants)
			for v := range out {
				r := rand.New(rand.NewSource(verifkit.Seed()*1000003 + caseKey(raw) + int64(v)))
				pubA, privA := newKey(r)
				getSubject := subjectFn(v)
				subject := getSubject(pubA)
				prefix := prefixOf(c.Bits, time.Now().Unix()+300, subject, nonce(r))
				want := c.Bits + c.Rel
				stamp, _ := search(prefix, r.Uint32()>>4, func(lz int) bool {
					if c.Rel > 0 {
						return lz >= want
					}
					return lz == want
				})
				o := sobs{LZ: stampLZ(stamp), Stamp: stamp}
				if p := verifkit.Recover(func() {
					hc, err := hashcash.Parse(stamp)
					if err != nil {
						o.Err = "parse: " + err.Error()
						return
					}
					if err := hc.Verify(subject); err != nil {
						o.Err = err.Error()
					} else {
						o.Hashcash = true
					}
					_, err = pow.VerifySolution(&protocol.ProofOfWork{PubKey: pubA, Signature: ed25519.Sign(privA, []byte(stamp)), Solution: stamp},
						pow.Parameters{GetSubject: getSubject, Expires: 10 * time.Minute, Difficulty: c.Bits})
					o.Pow = err == nil
				}); p != "" {
					o.Err = "panic: " + p
				}
				out[v] = o
			}
			verifkit.Answer(i, out)
		})
	case "solve":
		verifkit.EachCase(func(i int, raw json.RawMessage) {
			c := verifkit.Decode[struct{ D int }](raw)
			type vobs struct {
				Produced   bool   `json:"produced"`   // pow.GenerateSolution returned a proof
				Accepted   bool   `json:"accepted"`   // pow.VerifySolution accepted it under the same parameters
				HcProduced bool   `json:"hcProduced"` // hashcash.New + Solve returned a stamp
				HcAccepted bool   `json:"hcAccepted"` // Parse + Verify accepted it
				LZ         int    `json:"lz"`
				StampDiff  int    `json:"stampDiff"`
				Err        string `json:"err,omitempty"`
			}
			out := make([]vobs, variants)
			for v := range out {
				r := rand.New(rand.NewSource(verifkit.Seed()*1000003 + caseKey(raw) + int64(v)))
				_, privA := newKey(r)
				params := pow.Parameters{GetSubject: subjectFn(v), Expires: []time.Duration{10 * time.Minute, time.Hour, 24 * time.Hour}[v%3], Difficulty: c.D}
				var o vobs
				if p := verifkit.Recover(func() {
					proof, err := pow.GenerateSolution(privA, params)
					if err != nil {
						o.Err = "generate: " + err.Error()
					} else {
						o.Produced = true
						o.LZ = stampLZ(proof.GetSolution())
						if hc, err := hashcash.Parse(proof.GetSolution()); err == nil {
							o.StampDiff = hc.Difficulty
						}
						if _, err := pow.VerifySolution(proof, params); err != nil {
							o.Err = "verify: " + err.Error()
						} else {
							o.Accepted = true
						}
					}
					h := hashcash.New(hashcash.Hashcash{Subject: "res-" + strconv.Itoa(v), Difficulty: c.D, ExpiresAt: time.Now().Add(time.Minute)})
					if err := h.Solve(c.D); err != nil {
						o.Err += " solve: " + err.Error()
					} else {
						o.HcProduced = true
						p2, err := hashcash.Parse(h.String())
						if err != nil {
							o.Err += " parse: " + err.Error()
						} else if err := p2.Verify("res-" + strconv.Itoa(v)); err != nil {
							o.Err += " hcverify: " + err.Error()
						} else {
							o.HcAccepted = true
						}
					}
				}); p != "" {
					o.Err = "panic: " + p
				}
				out[v] = o
			}
			verifkit.Answer(i, out)
		})
	default:
		fmt.Fprintln(os.Stderr, "unknown family", fam)
		os.Exit(3)
	}
}
