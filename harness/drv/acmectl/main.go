//go:build verif

// Driver for AcmeCtl.tla (C29, C30): replays TLC-enumerated cases into the real AcmeInstruction / AcmeValidate /
// GetCertificate / Sign handlers and the keyless cache loader of tun/server.  Storage is the repository's in-memory
// KV provider, the resolver and the certificate provider are scripted stubs (the provider holds a real ECDSA key),
// callers are identified by client certificates as the transport would present them, proofs of work are real
// (solved by spec/pow at the difficulty the handlers require) and re-solved when they age.
package main

import (
	"context"
	"crypto/ecdsa"
	"crypto/ed25519"
	"crypto/elliptic"
	"crypto/rand"
	"crypto/tls"
	"crypto/x509"
	"crypto/x509/pkix"
	"encoding/json"
	"errors"
	"fmt"
	"math/big"
	"os"
	"sort"
	"strings"
	"sync"
	"time"

	"go.miragespace.co/specter/internal/verifkit"
	"go.miragespace.co/specter/kv/memory"
	"go.miragespace.co/specter/spec/acme"
	"go.miragespace.co/specter/spec/chord"
	"go.miragespace.co/specter/spec/cipher"
	"go.miragespace.co/specter/spec/pki"
	"go.miragespace.co/specter/spec/pow"
	"go.miragespace.co/specter/spec/protocol"
	"go.miragespace.co/specter/spec/rpc"
	"go.miragespace.co/specter/spec/transport"
	"go.miragespace.co/specter/spec/tun"
	"go.miragespace.co/specter/tun/server"
	"go.miragespace.co/specter/util/hashcash"

	"github.com/twitchtv/twirp"
	"golang.org/x/net/idna"
	"go.uber.org/zap"
)

const (
	apexZone = "tunnels.example.net"
	acmeZone = "acme-zone.example.org"
)

// ---------------------------------------------------------------- storage: real in-memory provider behind chord.VNode

type memNode struct {
	chord.VNode // nil: anything but the KV calls below panics
	kv          *memory.MemoryKV
	fmu         sync.Mutex
	faultKey    string // Get of exactly this key fails with faultErr (the owner of the key is unavailable)
	faultErr    error
}

func (m *memNode) setGetFault(key string, err error) {
	m.fmu.Lock()
	m.faultKey, m.faultErr = key, err
	m.fmu.Unlock()
}

func (m *memNode) Put(ctx context.Context, k, v []byte) error     { return m.kv.Put(ctx, k, v) }
func (m *memNode) Get(ctx context.Context, k []byte) ([]byte, error) {
	m.fmu.Lock()
	fk, fe := m.faultKey, m.faultErr
	m.fmu.Unlock()
	if fe != nil && fk == string(k) {
		return nil, fe
	}
	return m.kv.Get(ctx, k)
}
func (m *memNode) Delete(ctx context.Context, k []byte) error     { return m.kv.Delete(ctx, k) }
func (m *memNode) PrefixAppend(ctx context.Context, p, c []byte) error {
	return m.kv.PrefixAppend(ctx, p, c)
}
func (m *memNode) PrefixList(ctx context.Context, p []byte) ([][]byte, error) {
	return m.kv.PrefixList(ctx, p)
}
func (m *memNode) PrefixContains(ctx context.Context, p, c []byte) (bool, error) {
	return m.kv.PrefixContains(ctx, p, c)
}
func (m *memNode) PrefixRemove(ctx context.Context, p, c []byte) error {
	return m.kv.PrefixRemove(ctx, p, c)
}

// ---------------------------------------------------------------- stubs

type resolver struct {
	mu      sync.Mutex
	answers map[string]string // fqdn -> cname ("" = no such name)
	asked   []string
}

func (r *resolver) LookupCNAME(ctx context.Context, host string) (string, error) {
	r.mu.Lock()
	defer r.mu.Unlock()
	r.asked = append(r.asked, host)
	if a, ok := r.answers[host]; ok && a != "" {
		return a, nil
	}
	return "", errors.New("lookup " + host + ": no such host")
}

type provider struct {
	cipher.CertProvider // nil
	mu                  sync.Mutex
	key                 *ecdsa.PrivateKey
	chains              map[string][][]byte
	mk                  func(name string) *tls.Certificate // overrides the default (ttl family)
	calls               []string
}

func (p *provider) GetCertificateWithContext(ctx context.Context, chi *tls.ClientHelloInfo) (*tls.Certificate, error) {
	p.mu.Lock()
	defer p.mu.Unlock()
	p.calls = append(p.calls, chi.ServerName)
	if p.mk != nil {
		return p.mk(chi.ServerName), nil
	}
	der := selfSigned(p.key, chi.ServerName, time.Now().Add(24*time.Hour))
	p.chains[chi.ServerName] = [][]byte{der}
	leaf, _ := x509.ParseCertificate(der)
	return &tls.Certificate{Certificate: [][]byte{der}, PrivateKey: p.key, Leaf: leaf}, nil
}

func selfSigned(key *ecdsa.PrivateKey, name string, notAfter time.Time) []byte {
	tpl := &x509.Certificate{
		SerialNumber: big.NewInt(time.Now().UnixNano()),
		Subject:      pkix.Name{CommonName: name},
		DNSNames:     []string{name},
		NotBefore:    notAfter.Add(-90 * 24 * time.Hour),
		NotAfter:     notAfter,
		KeyUsage:     x509.KeyUsageDigitalSignature,
	}
	der, err := x509.CreateCertificate(rand.Reader, tpl, tpl, &key.PublicKey, key)
	if err != nil {
		panic(err)
	}
	return der
}

type tp struct {
	transport.Transport
	id *protocol.Node
}

func (t *tp) Identity() *protocol.Node { return t.id }

// ---------------------------------------------------------------- callers

type client struct {
	name  string
	token *protocol.ClientToken
	node  *protocol.Node
	cert  *x509.Certificate
	priv  ed25519.PrivateKey
}

func newClient(name string, id uint64, v2 bool) *client {
	pub, priv, _ := ed25519.GenerateKey(rand.Reader)
	var subj pkix.Name
	if v2 {
		subj = pki.MakeSubjectV2(id, pub[:16])
	} else {
		subj = pki.MakeSubjectV1(id, fmt.Sprintf("tok-%s-%d", name, verifkit.Seed()))
	}
	cert := &x509.Certificate{Subject: subj}
	ident, err := pki.ExtractCertificateIdentity(cert)
	if err != nil {
		panic(err)
	}
	return &client{name: name, token: &protocol.ClientToken{Token: ident.Token}, node: ident.NodeIdentity(), cert: cert, priv: priv}
}

func (c *client) ctx() context.Context {
	return rpc.WithDelegation(context.Background(), &transport.StreamDelegate{Certificate: c.cert, Identity: c.node, Kind: protocol.Stream_RPC})
}

// ---------------------------------------------------------------- proofs of work

type proofBox struct {
	mu    sync.Mutex
	priv  ed25519.PrivateKey
	cache map[string]*timedProof
	made  int
}
type timedProof struct {
	p  *protocol.ProofOfWork
	at time.Time
}

func (b *proofBox) solve(subject string, bits int, expires time.Time) *protocol.ProofOfWork {
	hc := hashcash.New(hashcash.Hashcash{Subject: subject, Difficulty: bits, ExpiresAt: expires})
	if err := hc.Solve(bits); err != nil {
		panic(err)
	}
	b.made++
	return &protocol.ProofOfWork{
		PubKey:    b.priv.Public().(ed25519.PublicKey),
		Signature: ed25519.Sign(b.priv, []byte(hc.String())),
		Solution:  hc.String(),
	}
}

// valid returns a fresh real proof for the (normalized) hostname, produced by the repository's own generator
func (b *proofBox) valid(subject string) *protocol.ProofOfWork {
	b.mu.Lock()
	defer b.mu.Unlock()
	if tp, ok := b.cache["v|"+subject]; ok && time.Since(tp.at) < 4*time.Second {
		return tp.p
	}
	p, err := pow.GenerateSolution(b.priv, pow.Parameters{
		Difficulty: acme.HashcashDifficulty,
		Expires:    acme.HashcashExpires,
		GetSubject: func(ed25519.PublicKey) string { return subject },
	})
	if err != nil {
		panic(err)
	}
	b.made++
	b.cache["v|"+subject] = &timedProof{p: p, at: time.Now()}
	return p
}

func (b *proofBox) variant(kind, subject string, salt int) *protocol.ProofOfWork {
	switch kind {
	case "valid":
		return b.valid(subject)
	case "missing":
		if salt%2 == 0 {
			return nil
		}
		return &protocol.ProofOfWork{}
	case "wrongsubject":
		return b.valid("elsewhere." + subject)
	case "tampered":
		v := b.valid(subject)
		sig := append([]byte{}, v.Signature...)
		sig[salt%len(sig)] ^= 0x01
		return &protocol.ProofOfWork{PubKey: v.PubKey, Signature: sig, Solution: v.Solution}
	case "expired":
		b.mu.Lock()
		defer b.mu.Unlock()
		k := fmt.Sprintf("x%d|%s", salt%2, subject)
		// long expired proofs never become valid again; the barely expired one is re-solved when it ages out of
		// the window in which only the expiry (not the distance from now) refuses it
		if tp, ok := b.cache[k]; ok && (salt%2 == 0 || time.Since(tp.at) < 10*time.Second) {
			return tp.p
		}
		back := 90 * time.Second
		if salt%2 == 1 {
			back = 3 * time.Second
		}
		p := b.solve(subject, acme.HashcashDifficulty, time.Now().Add(-back))
		b.cache[k] = &timedProof{p: p, at: time.Now()}
		return p
	case "easy":
		b.mu.Lock()
		defer b.mu.Unlock()
		k := "e|" + subject
		if tp, ok := b.cache[k]; ok && time.Since(tp.at) < 4*time.Second {
			return tp.p
		}
		p := b.solve(subject, acme.HashcashDifficulty-6, time.Now().Add(acme.HashcashExpires))
		b.cache[k] = &timedProof{p: p, at: time.Now()}
		return p
	}
	panic("proof kind " + kind)
}

// ---------------------------------------------------------------- world

type world struct {
	kv   *memNode
	res  *resolver
	prov *provider
	srv  *server.Server
	cl   map[string]*client
	pb   *proofBox
}

func newWorld() *world {
	key, _ := ecdsa.GenerateKey(elliptic.P256(), rand.Reader)
	_, ppriv, _ := ed25519.GenerateKey(rand.Reader)
	w := &world{
		kv:   &memNode{kv: memory.WithHashFn(chord.Hash)},
		res:  &resolver{answers: map[string]string{}},
		prov: &provider{key: key, chains: map[string][][]byte{}},
		cl:   map[string]*client{"A": newClient("A", 7001, false), "B": newClient("B", 7002, true)},
		pb:   &proofBox{priv: ppriv, cache: map[string]*timedProof{}},
	}
	w.srv = server.New(server.Config{
		Logger: zap.NewNop(), ParentContext: context.Background(), Chord: w.kv,
		TunnelTransport: &tp{id: &protocol.Node{Id: 1, Address: "tunnel.verif:443"}},
		ChordTransport:  &tp{id: &protocol.Node{Id: 2, Address: "chord.verif:443"}},
		Resolver:        w.res, CertProvider: w.prov, Apex: apexZone, Acme: acmeZone,
	})
	return w
}

func other(n string) string {
	if n == "A" {
		return "B"
	}
	return "A"
}

// holder reads the stored binding of a (normalized) hostname: "none" | "A" | "B" | "?..."
func (w *world) holder(host string) string {
	b, err := tun.FindCustomHostname(context.Background(), w.kv, host)
	if err != nil {
		if errors.Is(err, tun.ErrHostnameNotFound) {
			return "none"
		}
		return "?" + err.Error()
	}
	for n, c := range w.cl {
		if string(b.GetClientToken().GetToken()) == string(c.token.GetToken()) && b.GetClientIdentity().GetId() == c.node.GetId() {
			return n
		}
	}
	return "?unknown"
}

func (w *world) setHolder(host, who string) {
	ctx := context.Background()
	for _, c := range w.cl {
		w.kv.PrefixRemove(ctx, []byte(tun.ClientHostnamesPrefix(c.token)), []byte(host))
	}
	if who == "none" {
		if err := tun.RemoveCustomHostname(ctx, w.kv, host); err != nil {
			panic(err)
		}
		return
	}
	c := w.cl[who]
	if err := tun.SaveCustomHostname(ctx, w.kv, host, &protocol.CustomHostname{ClientIdentity: c.node, ClientToken: c.token}); err != nil {
		panic(err)
	}
	w.kv.PrefixAppend(ctx, []byte(tun.ClientHostnamesPrefix(c.token)), []byte(host))
}

// bindings lists every stored custom-hostname binding (name -> holder)
func (w *world) bindings() map[string]string {
	out := map[string]string{}
	keys, err := w.kv.kv.ListKeys(context.Background(), []byte("/tunnel/client/custom/"))
	if err != nil {
		panic(err)
	}
	for _, k := range keys {
		name := strings.TrimPrefix(string(k.GetKey()), "/tunnel/client/custom/")
		if h := w.holder(name); h != "none" {
			out[name] = h
		}
	}
	return out
}

func (w *world) listed(host string) []string {
	out := []string{}
	for n, c := range w.cl {
		ok, _ := w.kv.PrefixContains(context.Background(), []byte(tun.ClientHostnamesPrefix(c.token)), []byte(host))
		if ok {
			out = append(out, n)
		}
	}
	sort.Strings(out)
	return out
}

func code(err error) string {
	if err == nil {
		return ""
	}
	var te twirp.Error
	if errors.As(err, &te) {
		return string(te.Code())
	}
	return "error"
}

// ---------------------------------------------------------------- C29

type hostForm struct {
	sent string // what the request carries
	norm string // the DNS name it denotes (lower case, no white space)
}

func hostOf(class string, base string) hostForm {
	switch class {
	case "valid":
		return hostForm{"www." + base, "www." + base}
	case "upper":
		return hostForm{"WWW." + strings.ToUpper(base[:1]) + base[1:], "www." + base}
	case "spaced":
		return hostForm{" www." + base + "\t", "www." + base}
	case "bare":
		return hostForm{base, base}
	case "apex":
		return hostForm{"svc." + apexZone, "svc." + apexZone}
	case "apexup":
		return hostForm{"svc." + strings.ToUpper(apexZone), "svc." + apexZone}
	case "acme":
		return hostForm{"svc." + acmeZone, "svc." + acmeZone}
	case "apexspaced":
		return hostForm{"svc." + apexZone[:2] + " " + apexZone[2:], "svc." + apexZone}
	case "acmespaced":
		return hostForm{"svc." + acmeZone[:3] + "\t" + acmeZone[3:], "svc." + acmeZone}
	case "apexself":
		return hostForm{apexZone, apexZone}
	case "acmeself":
		return hostForm{acmeZone, acmeZone}
	case "unicode":
		puny, err := idna.ToASCII("b\u00fccher." + base)
		if err != nil {
			panic(err)
		}
		return hostForm{"b\u00fccher." + base, puny}
	}
	panic("host class " + class)
}

type stepObs struct {
	Ok       bool              `json:"ok"`
	Code     string            `json:"code"`
	Pre      string            `json:"pre"`
	Post     string            `json:"post"`
	Bindings map[string]string `json:"bindings"` // every binding stored after the call
	Listed   []string          `json:"listed"`   // clients whose hostname list names the host
	Norm     string            `json:"norm"`
	Target   string            `json:"target"` // instruction: "own" | "other" | "?" ; validate: ""
	Asked    []string          `json:"asked"`
}

func (w *world) step(callerName, method string, hf hostForm, cname, proofKind string, salt int, fault ...string) stepObs {
	caller := w.cl[callerName]
	name, ownTarget := acme.GenerateCustomRecord(hf.norm, acmeZone, caller.token.GetToken())
	_, otherTarget := acme.GenerateCustomRecord(hf.norm, acmeZone, w.cl[other(callerName)].token.GetToken())
	w.res.mu.Lock()
	w.res.asked = nil
	switch cname {
	case "own":
		w.res.answers[name] = ownTarget
	case "other":
		w.res.answers[name] = otherTarget
	case "junk":
		w.res.answers[name] = "parking.example.com."
	default:
		w.res.answers[name] = ""
	}
	w.res.mu.Unlock()
	// the proof is solved for the name the server will verify it against (the normalized request name)
	var proof *protocol.ProofOfWork
	if proofKind == "validsent" { // a real proof for the string as sent
		proof = w.pb.variant("valid", hf.sent, salt)
	} else {
		proof = w.pb.variant(proofKind, hf.norm, salt)
	}
	ob := stepObs{Pre: w.holder(hf.norm), Norm: hf.norm}
	var err error
	if len(fault) > 0 && fault[0] != "" && fault[0] != "none" { // the DHT cannot read the binding record of the hostname
		ferr := error(chord.ErrKVStaleOwnership)
		if fault[0] == "fatal" {
			ferr = errors.New("verif: storage failure")
		}
		w.kv.setGetFault(tun.CustomHostnameKey(hf.norm), ferr)
	}
	switch method {
	case "validate":
		_, err = w.srv.AcmeValidate(caller.ctx(), &protocol.ValidateRequest{Proof: proof, Hostname: hf.sent})
	case "instruction":
		var resp *protocol.InstructionResponse
		resp, err = w.srv.AcmeInstruction(caller.ctx(), &protocol.InstructionRequest{Proof: proof, Hostname: hf.sent})
		if err == nil {
			switch {
			case resp.GetName() == name && resp.GetContent() == ownTarget:
				ob.Target = "own"
			case resp.GetContent() == otherTarget:
				ob.Target = "other"
			default:
				ob.Target = "?" + resp.GetName() + " -> " + resp.GetContent()
			}
		}
	}
	w.kv.setGetFault("", nil)
	ob.Ok = err == nil
	ob.Code = code(err)
	ob.Post = w.holder(hf.norm)
	ob.Bindings = w.bindings()
	ob.Listed = w.listed(hf.norm)
	w.res.mu.Lock()
	ob.Asked = append([]string{}, w.res.asked...)
	w.res.mu.Unlock()
	return ob
}

func (w *world) wipe() {
	for name := range w.bindings() {
		w.setHolder(name, "none")
	}
}

func runValidate(w *world) {
	base := fmt.Sprintf("customer%d.org", verifkit.Seed())
	verifkit.EachCase(func(i int, raw json.RawMessage) {
		c := verifkit.Decode[struct{ Caller, Method, Host, Cname, Bound, Proof, Fault string }](raw)
		hf := hostOf(c.Host, base)
		w.wipe()
		pre := "none"
		switch c.Bound {
		case "same":
			pre = c.Caller
		case "other":
			pre = other(c.Caller)
		}
		w.setHolder(hf.norm, pre)
		ob := w.step(c.Caller, c.Method, hf, c.Cname, c.Proof, i, c.Fault)
		verifkit.Answer(i, ob)
	})
}

func runHist(w *world) {
	verifkit.EachCase(func(i int, raw json.RawMessage) {
		steps := verifkit.Decode[[]struct{ Caller, Cname string }](raw)
		w.wipe()
		hf := hostOf("valid", fmt.Sprintf("hist%d.org", verifkit.Seed()))
		out := make([]stepObs, 0, len(steps))
		for k, s := range steps {
			cname := "none"
			if s.Cname == s.Caller {
				cname = "own"
			} else if s.Cname != "none" {
				cname = "other"
			}
			out = append(out, w.step(s.Caller, "validate", hf, cname, "valid", i+k))
		}
		verifkit.Answer(i, out)
	})
}

// ---------------------------------------------------------------- C30: decision table

func runKeyless(w *world) {
	seed := verifkit.Seed()
	hosts := map[string]string{
		"bound":   fmt.Sprintf("www.mine%d.example.com", seed),
		"other":   fmt.Sprintf("www.theirs%d.example.com", seed),
		"unbound": fmt.Sprintf("www.nobody%d.example.com", seed),
	}
	hosts["twin"] = hosts["bound"]
	// the same token as client A under another client id (the subject is "v1:<id>:<token>")
	a := w.cl["A"]
	twinCert := &x509.Certificate{Subject: pki.MakeSubjectV1(7001+31, string(a.token.GetToken()))}
	twinIdent, err := pki.ExtractCertificateIdentity(twinCert)
	if err != nil || string(twinIdent.Token) != string(a.token.GetToken()) || twinIdent.ID == 7001 {
		panic(fmt.Sprint("cannot build the twin identity: ", err))
	}
	twin := &client{name: "Atwin", token: &protocol.ClientToken{Token: twinIdent.Token}, node: twinIdent.NodeIdentity(), cert: twinCert, priv: a.priv}
	algos := map[int]protocol.KeylessSignRequest_HashAlgorithm{
		0: protocol.KeylessSignRequest_UNKNOWN, 1: protocol.KeylessSignRequest_SHA256,
		2: protocol.KeylessSignRequest_SHA384, 3: protocol.KeylessSignRequest_SHA512, 9: 9,
	}
	rnd := verifkit.Rand(30)
	verifkit.EachCase(func(i int, raw json.RawMessage) {
		c := verifkit.Decode[struct {
			Caller, Proof, Method string
			Hash, Dlen            int
		}](raw)
		w.wipe()
		w.setHolder(hosts["bound"], "A")
		w.setHolder(hosts["other"], "B")
		host := hosts[c.Caller]
		caller := w.cl["A"]
		if c.Caller == "twin" {
			caller = twin
		}
		proof := w.pb.variant(c.Proof, host, i)
		type obs struct {
			Ok       bool              `json:"ok"`
			Code     string            `json:"code"`
			ChainOk  bool              `json:"chain_ok"`
			SigOk    bool              `json:"sig_ok"`
			Bindings map[string]string `json:"bindings"`
			Provider []string          `json:"provider_calls"`
		}
		var ob obs
		w.prov.mu.Lock()
		w.prov.calls = nil
		w.prov.mu.Unlock()
		switch c.Method {
		case "get":
			resp, err := w.srv.GetCertificate(caller.ctx(), &protocol.KeylessGetCertificateRequest{Proof: proof, Hostname: host})
			ob.Ok, ob.Code = err == nil, code(err)
			if err == nil {
				w.prov.mu.Lock()
				want := w.prov.chains[host]
				w.prov.mu.Unlock()
				got := resp.GetCertificates()
				ob.ChainOk = len(got) > 0 && len(got) == len(want)
				for k := range got {
					if ob.ChainOk && string(got[k]) != string(want[k]) {
						ob.ChainOk = false
					}
				}
			}
		case "sign":
			digest := make([]byte, c.Dlen)
			rnd.Read(digest)
			resp, err := w.srv.Sign(caller.ctx(), &protocol.KeylessSignRequest{Proof: proof, Hostname: host, Digest: digest, Algo: algos[c.Hash]})
			ob.Ok, ob.Code = err == nil, code(err)
			if err == nil {
				ob.SigOk = ecdsa.VerifyASN1(&w.prov.key.PublicKey, digest, resp.GetSignature())
			}
		}
		ob.Bindings = w.bindings()
		w.prov.mu.Lock()
		ob.Provider = append([]string{}, w.prov.calls...)
		w.prov.mu.Unlock()
		verifkit.Answer(i, ob)
	})
}

// ---------------------------------------------------------------- C30: cache time

func runTTL(w *world) {
	base := time.Unix(time.Now().Unix()+86400, 0) // second-aligned: x509 stores whole seconds
	verifkit.EachCase(func(i int, raw json.RawMessage) {
		c := verifkit.Decode[struct {
			R    int64
			Form string
		}](raw)
		type obs struct {
			TTLus    int64  `json:"ttl_us"`
			BeforeUs int64  `json:"rem_before_us"` // NotAfter - clock before the call (loader form)
			AfterUs  int64  `json:"rem_after_us"`
			ProvUs   int64  `json:"rem_prov_us"` // NotAfter - clock when the certificate provider returned (loader form)
			Err      string `json:"err"`
		}
		var ob obs
		r := time.Duration(c.R) * time.Millisecond
		switch c.Form {
		case "leaf":
			now := base.Add(-r)
			cert := &tls.Certificate{Certificate: [][]byte{{1, 2, 3}}, Leaf: &x509.Certificate{NotAfter: base}}
			ob.TTLus = server.VerifC30TTL(cert, now).Microseconds()
			ob.BeforeUs, ob.AfterUs = r.Microseconds(), r.Microseconds()
		case "der":
			now := base.Add(-r)
			cert := &tls.Certificate{Certificate: [][]byte{selfSigned(w.prov.key, "ttl.example.com", base)}}
			ob.TTLus = server.VerifC30TTL(cert, now).Microseconds()
			ob.BeforeUs, ob.AfterUs = r.Microseconds(), r.Microseconds()
		case "loader":
			host := fmt.Sprintf("ttl%d.example.com", i)
			var notAfter, provDone time.Time
			w.prov.mu.Lock()
			w.prov.mk = func(name string) *tls.Certificate {
				notAfter = time.Now().Add(r)
				time.Sleep(120 * time.Millisecond) // issuance / storage round trip: the provider takes its time
				provDone = time.Now()
				return &tls.Certificate{Certificate: [][]byte{{1, 2, 3}}, PrivateKey: w.prov.key, Leaf: &x509.Certificate{NotAfter: notAfter}}
			}
			w.prov.mu.Unlock()
			before := time.Now()
			verr, cert, ttl, lerr := w.srv.VerifC30Load(w.cl["A"].ctx(), host)
			after := time.Now()
			w.prov.mu.Lock()
			w.prov.mk = nil
			w.prov.mu.Unlock()
			if verr != nil || lerr != nil || cert == nil {
				ob.Err = fmt.Sprint(verr, lerr)
			}
			ob.TTLus = ttl.Microseconds()
			ob.BeforeUs = notAfter.Sub(before).Microseconds()
			ob.AfterUs = notAfter.Sub(after).Microseconds()
			ob.ProvUs = notAfter.Sub(provDone).Microseconds()
		}
		verifkit.Answer(i, ob)
	})
}

func main() {
	if len(os.Args) > 1 && os.Args[1] == "info" {
		verifkit.Emit(map[string]any{"skew_ms": server.VerifC30Skew.Milliseconds(), "difficulty": acme.HashcashDifficulty})
		verifkit.Flush()
		return
	}
	w := newWorld()
	switch os.Args[1] {
	case "validate":
		runValidate(w)
	case "hist":
		runHist(w)
	case "keyless":
		runKeyless(w)
	case "ttl":
		runTTL(w)
	default:
		fmt.Fprintln(os.Stderr, "usage: acmectl info|validate|hist|keyless|ttl")
		os.Exit(3)
	}
	fmt.Fprintf(os.Stderr, "proofs solved: %d\n", w.pb.made)
}
