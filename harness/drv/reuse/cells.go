//go:build verif

package main

import (
	"context"
	"fmt"
	"net"
	"strings"
	"sync"
	"sync/atomic"
	"time"

	"go.miragespace.co/specter/overlay"
	"go.miragespace.co/specter/spec/protocol"
	"go.miragespace.co/specter/spec/rpc"

	"github.com/quic-go/quic-go"
)

// Binding of the decision table: one real transport T against a scripted QUIC peer S that speaks the
// negotiation protocol by hand and announces whatever status the cell prescribes.

type Cell struct {
	Ps  string `json:"ps"`  // status the peer announces: CACHED | FRESH
	Pd  string `json:"pd"`  // in | out
	Own string `json:"own"` // what T finds in its cache in the read phase: in | out | none
	Dir string `json:"dir"` // T's end of the negotiated connection: in (S dials T) | out (T dials S)
}

type CellObs struct {
	Status []string `json:"status"` // what T announced
	Out    string   `json:"out"`    // err | reuse | reuse-close | store
	Code   int64    `json:"code"`   // application error code S saw on the negotiated connection (0: open)
	Kill   bool     `json:"kill"`   // T closed the connection it had cached (and returned)
	Issues []string `json:"issues,omitempty"`
}

type script struct {
	udp *net.UDPConn
	tr  *quic.Transport
	ln  *quic.Listener
	id  *protocol.Node
}

func newScript() *script {
	udp, err := net.ListenUDP("udp4", &net.UDPAddr{IP: net.ParseIP("127.0.0.1")})
	if err != nil {
		panic(err)
	}
	tr := &quic.Transport{Conn: udp}
	ln, err := tr.Listen(tlsConf(), overlay.VerifQuicConfig())
	if err != nil {
		panic(err)
	}
	return &script{udp: udp, tr: tr, ln: ln, id: &protocol.Node{Address: udp.LocalAddr().String(), Id: 1}}
}

func (s *script) close() {
	s.ln.Close()
	s.tr.Close()
	s.udp.Close()
}

func statusMsg(state, dir string) *protocol.Connection {
	m := &protocol.Connection{}
	if state == "CACHED" {
		m.CacheState = protocol.Connection_CACHED
	} else {
		m.CacheState = protocol.Connection_FRESH
	}
	if dir == "in" {
		m.CacheDirection = protocol.Connection_INCOMING
	} else {
		m.CacheDirection = protocol.Connection_OUTGOING
	}
	return m
}

func statusOf(m *protocol.Connection) []string {
	st, d := "?", "?"
	switch m.GetCacheState() {
	case protocol.Connection_CACHED:
		st = "CACHED"
	case protocol.Connection_FRESH:
		st = "FRESH"
	}
	switch m.GetCacheDirection() {
	case protocol.Connection_INCOMING:
		d = "in"
	case protocol.Connection_OUTGOING:
		d = "out"
	}
	return []string{st, d}
}

// negotiate plays S's end on conn.  opens: S opens the negotiation stream (S accepted the connection).
func (s *script) negotiate(conn *quic.Conn, opens bool, state, dir string) ([]string, error) {
	ctx, cancel := context.WithTimeout(context.Background(), 10*time.Second)
	defer cancel()
	var st *quic.Stream
	var err error
	if opens {
		st, err = conn.OpenStreamSync(ctx)
	} else {
		st, err = conn.AcceptStream(ctx)
	}
	if err != nil {
		return nil, fmt.Errorf("negotiation stream: %w", err)
	}
	st.SetDeadline(time.Now().Add(10 * time.Second))
	if err := rpc.Send(st, &protocol.Connection{Identity: s.id, Version: "verif"}); err != nil {
		return nil, fmt.Errorf("send identity: %w", err)
	}
	m := &protocol.Connection{}
	if err := rpc.Receive(st, m); err != nil {
		return nil, fmt.Errorf("receive identity: %w", err)
	}
	// T announces its status before it waits for ours; read it first, because T may close the connection
	// as soon as it has decided and a closed connection fails reads even of data that already arrived
	m.Reset()
	if err := rpc.Receive(st, m); err != nil {
		return nil, fmt.Errorf("receive status: %w", err)
	}
	if err := rpc.Send(st, statusMsg(state, dir)); err != nil {
		return nil, fmt.Errorf("send status: %w", err)
	}
	return statusOf(m), nil
}

func runCell(c Cell) *CellObs {
	o := &CellObs{}
	issue := func(f string, a ...any) *CellObs { o.Issues = append(o.Issues, fmt.Sprintf(f, a...)); return o }
	g := newGroup()
	t := newPeer("T", g)
	s := newScript()
	defer func() { g.releaseAll(); t.close(); s.close() }()
	sNode := &protocol.Node{Address: s.id.Address, Id: 1}
	tAddr := t.udp.LocalAddr()
	const wait = 8 * time.Second

	type dialOut struct {
		conn *quic.Conn
		err  error
	}
	// T dials S through the public API; S accepts and plays the given status.
	tDial := func(control bool, state, dir string) (chan dialOut, chan []string, *quic.Conn, error) {
		res := make(chan dialOut, 1)
		stat := make(chan []string, 1)
		ready := make(chan struct{})
		atomic.AddInt32(&t.dials.tokens, 1) // one DialEarly per intended dial; a retry of getCachedConnection is suppressed
		go func() {
			gid, _ := goids()
			reg.Store(gid, &gctl{g: g, peer: "T", control: control})
			defer reg.Delete(gid)
			close(ready)
			ctx, cancel := context.WithTimeout(context.Background(), 20*time.Second)
			defer cancel()
			c, err := t.t.DialStream(ctx, sNode, protocol.Stream_RPC)
			if err != nil {
				res <- dialOut{nil, err}
				return
			}
			keepOpen(c)
			res <- dialOut{overlay.VerifConnOf(c), nil}
		}()
		<-ready
		actx, cancel := context.WithTimeout(context.Background(), wait)
		defer cancel()
		sc, err := s.ln.Accept(actx)
		if err != nil {
			return res, stat, nil, fmt.Errorf("S did not get T's connection: %w", err)
		}
		go func() {
			st, err := s.negotiate(sc, true, state, dir)
			if err != nil {
				st = []string{"error", err.Error()}
			}
			stat <- st
		}()
		return res, stat, sc, nil
	}
	// S dials T and plays the given status.
	sDial := func(state, dir string) (chan []string, *quic.Conn, error) {
		stat := make(chan []string, 1)
		ctx, cancel := context.WithTimeout(context.Background(), wait)
		defer cancel()
		sc, err := s.tr.Dial(ctx, tAddr, tlsConf(), overlay.VerifQuicConfig())
		if err != nil {
			return stat, nil, fmt.Errorf("S could not dial T: %w", err)
		}
		go func() {
			st, err := s.negotiate(sc, false, state, dir)
			if err != nil {
				st = []string{"error", err.Error()}
			}
			stat <- st
		}()
		return stat, sc, nil
	}
	cachedT := func() (*quic.Conn, bool, bool) { return t.t.VerifCached(sNode) }

	var (
		cellRes  chan dialOut
		cellStat chan []string
		cellConn *quic.Conn // S's object of the negotiated connection
		err      error
	)
	if c.Dir == "out" {
		// the dial of the cell starts while nothing is cached and parks before the read phase
		if cellRes, cellStat, cellConn, err = tDial(true, c.Ps, c.Pd); err != nil {
			return issue("%v", err)
		}
		if _, err := g.waitPark("T", overlay.VerifDirOutgoing, "reuse:read", wait); err != nil {
			return issue("%v", err)
		}
	}
	// install what T is to find in its cache (honest negotiations, ungated)
	switch c.Own {
	case "in":
		stat, _, err := sDial("FRESH", "out")
		if err != nil {
			return issue("%v", err)
		}
		if st := <-stat; st[0] == "error" {
			return issue("install incoming: %s", st[1])
		}
	case "out":
		res, stat, _, err := tDial(false, "FRESH", "in")
		if err != nil {
			return issue("%v", err)
		}
		if st := <-stat; st[0] == "error" {
			return issue("install outgoing: %s", st[1])
		}
		if r := <-res; r.err != nil {
			return issue("install outgoing: %v", r.err)
		}
	}
	if c.Own != "none" {
		if !waitFor(3*time.Second, func() bool { _, out, ok := cachedT(); return ok && out == (c.Own == "out") }) {
			return issue("cache entry (%s) not installed", c.Own)
		}
	}
	before, _, _ := cachedT()
	accBefore := t.ln.count()
	dialsBefore := t.dials.count()
	var fate string
	var tObj *quic.Conn // T's object of the negotiated connection
	if c.Dir == "out" {
		tObj = t.dials.get(0)
		for _, pt := range []string{"reuse:read", "reuse:status", "reuse:decide"} {
			if _, err := g.waitPark("T", overlay.VerifDirOutgoing, pt, wait); err != nil {
				return issue("%v", err)
			}
			g.resume("T", overlay.VerifDirOutgoing)
		}
	} else {
		g.ctlIncoming.Store(true)
		if cellStat, cellConn, err = sDial(c.Ps, c.Pd); err != nil {
			return issue("%v", err)
		}
		var pk *park
		for _, pt := range []string{"reuse:read", "reuse:status", "reuse:decide"} {
			if pk, err = g.waitPark("T", overlay.VerifDirIncoming, pt, wait); err != nil {
				return issue("%v", err)
			}
			g.resume("T", overlay.VerifDirIncoming)
		}
		waitLeft(pk.gid, 5*time.Second)
		waitFor(2*time.Second, func() bool { fate = fateOf(pk.gid); return fate == "gone" || fate == "sleep" })
		tObj = t.ln.get(accBefore)
	}
	select {
	case st := <-cellStat:
		if st[0] == "error" {
			// S could not read T's status: T gave up before announcing it
			o.Issues = append(o.Issues, "S: "+st[1])
		} else {
			o.Status = st
		}
	case <-time.After(wait):
		return issue("S did not finish the negotiation")
	}
	var dres dialOut
	if c.Dir == "out" {
		select {
		case dres = <-cellRes:
		case <-time.After(wait):
			return issue("T's DialStream did not return")
		}
	}
	_ = dialsBefore
	closedCode := func() int64 {
		if st := stateOf(cellConn); st != nil {
			return st.Code
		}
		return 0
	}
	now, _, ok := cachedT()
	switch {
	case c.Dir == "out" && (t.retries() > 0 || (dres.err != nil && strings.HasPrefix(dres.err.Error(), "creating quic connection:"))):
		// getCachedConnection failed (after its retry was suppressed): the negotiation returned a reuse error
		o.Out = "err"
	case c.Dir == "in" && fate == "sleep":
		o.Out = "err"
	case ok && now == tObj && now != before:
		o.Out = "store"
	default:
		// reuse: did T close the new connection?
		waitFor(400*time.Millisecond, func() bool { return closedCode() != 0 })
		if closedCode() == 508 {
			o.Out = "reuse-close"
		} else {
			o.Out = "reuse"
		}
		if now != before {
			o.Issues = append(o.Issues, "cache entry changed although the new connection was not stored")
		}
		if c.Dir == "out" && dres.err == nil && dres.conn != before {
			o.Issues = append(o.Issues, "DialStream did not return the cached connection")
		}
	}
	o.Code = closedCode()
	if before != nil {
		waitFor(50*time.Millisecond, func() bool { return stateOf(before) != nil })
		if st := stateOf(before); st != nil && !st.Remote {
			o.Kill = true
		}
	}
	return o
}

// ---------------------------------------------------------------------------------------------
// uncontrolled sequential use of the public API (no gates, no holds)

type E2E struct {
	Steps  []map[string]any `json:"steps"`
	Issues []string         `json:"issues,omitempty"`
}

func runE2E() *E2E {
	out := &E2E{}
	r := newRun()
	defer r.close()
	var mu sync.Mutex
	// the accepting end finishes its negotiation a moment after the dialing end: wait for both entries
	bothCached := func() {
		waitFor(3*time.Second, func() bool {
			_, a := r.cached("A")
			_, b := r.cached("B")
			return a && b
		})
	}
	dial := func(label, k string) {
		from := r.peers[dialer(k)]
		nb := from.dials.count()
		from.dials.tokens = 1
		r.startDial(k, false)
		r.dialWG.Wait()
		if from.dials.count() > nb { // a new connection was made: name it
			r.bindNew(k, nb, r.peers[other(dialer(k))].ln.count()-1)
		}
		bothCached()
		r.nameDials()
		d := r.dials[k]
		o := r.observe()
		mu.Lock()
		out.Steps = append(out.Steps, map[string]any{"do": label, "err": d.Err, "conn": d.Conn, "newdial": from.dials.count() - nb, "cache": o.Cache, "cl": o.Cl})
		mu.Unlock()
	}
	r.startDial("Z", false)
	if err := r.bindNew("Z", 0, 0); err != nil {
		out.Issues = append(out.Issues, err.Error())
		return out
	}
	r.dialWG.Wait()
	bothCached()
	r.nameDials()
	o := r.observe()
	out.Steps = append(out.Steps, map[string]any{"do": "A dials B", "err": r.dials["Z"].Err, "conn": r.dials["Z"].Conn, "newdial": 1, "cache": o.Cache, "cl": o.Cl})
	dial("B dials A", "Y")
	dial("A dials B again", "X")
	return out
}
