//go:build verif

package main

import (
	"bytes"
	"fmt"
	"runtime"
	"strconv"
	"strings"
	"sync"
	"sync/atomic"
	"time"
)

// Gate control.  verifhook.At("reuse:read|status|decide", direction) is called by the goroutine that runs
// reuseConnection.  The goroutine is attributed to a peer of a group (one scenario / one cell) either
// directly (a dial goroutine the driver started) or through its creator (the AcceptWithListener goroutine of
// that peer spawns one goroutine per accepted connection).

type gctl struct {
	g        *group
	peer     string
	acceptor bool // registered goroutine is an accept loop: its children are the accepting ends
	control  bool // dial goroutine: park at gates
}

var reg sync.Map // goroutine id -> *gctl

type park struct {
	peer   string
	dir    uint64
	point  string
	gid    int64
	resume chan struct{}
}

// group = the transports of one scenario or cell with their parked negotiation ends
type group struct {
	ctlIncoming atomic.Bool // accepting ends park at gates
	holdHandle  atomic.Bool // ends that returned a fresh connection also park where handlePeer starts (after reuseConnection has returned)
	parkCh      chan *park
	parks       map[string]*park // peer/dir -> parked end
	gids        map[string]int64 // peer/dir -> goroutine of the last seen end
}

func newGroup() *group {
	return &group{parkCh: make(chan *park, 32), parks: map[string]*park{}, gids: map[string]int64{}}
}

func endKey(peer string, dir uint64) string { return peer + "/" + strconv.FormatUint(dir, 10) }

// goids returns the id of the calling goroutine and of the goroutine that created it (0 if unknown).
func goids() (self, creator int64) {
	buf := make([]byte, 16<<10)
	n := runtime.Stack(buf, false)
	b := buf[:n]
	f := bytes.Fields(b[:bytes.IndexByte(b, '\n')])
	self, _ = strconv.ParseInt(string(f[1]), 10, 64)
	if i := bytes.LastIndex(b, []byte(" in goroutine ")); i >= 0 {
		rest := b[i+len(" in goroutine "):]
		j := 0
		for j < len(rest) && rest[j] >= '0' && rest[j] <= '9' {
			j++
		}
		creator, _ = strconv.ParseInt(string(rest[:j]), 10, 64)
	}
	return
}

func at(point string, node uint64) {
	if !strings.HasPrefix(point, "reuse:") {
		return
	}
	self, creator := goids()
	var c *gctl
	if v, ok := reg.Load(self); ok {
		c = v.(*gctl)
		if c.acceptor || !c.control {
			return
		}
	} else if v, ok := reg.Load(creator); ok {
		c = v.(*gctl)
		if !c.acceptor || !c.g.ctlIncoming.Load() {
			return
		}
	} else {
		return
	}
	if point == "reuse:handle" && !c.g.holdHandle.Load() {
		return
	}
	ev := &park{peer: c.peer, dir: node, point: point, gid: self, resume: make(chan struct{})}
	c.g.parkCh <- ev
	<-ev.resume
}

// waitPark waits until the end (peer, dir) is parked at point.
func (g *group) waitPark(peer string, dir uint64, point string, d time.Duration) (*park, error) {
	key := endKey(peer, dir)
	deadline := time.NewTimer(d)
	defer deadline.Stop()
	for {
		if p, ok := g.parks[key]; ok {
			if p.point == point {
				return p, nil
			}
			return nil, fmt.Errorf("%s is parked at %s, expected %s", key, p.point, point)
		}
		select {
		case ev := <-g.parkCh:
			k := endKey(ev.peer, ev.dir)
			g.parks[k] = ev
			g.gids[k] = ev.gid
		case <-deadline.C:
			return nil, fmt.Errorf("%s did not reach %s within %v", key, point, d)
		}
	}
}

func (g *group) resume(peer string, dir uint64) {
	key := endKey(peer, dir)
	if p, ok := g.parks[key]; ok {
		delete(g.parks, key)
		close(p.resume)
	}
}

// releaseAll lets every parked end run (scenario teardown / free phases).
func (g *group) releaseAll() {
	g.ctlIncoming.Store(false)
	for {
		select {
		case ev := <-g.parkCh:
			close(ev.resume)
			continue
		default:
		}
		break
	}
	for k, p := range g.parks {
		close(p.resume)
		delete(g.parks, k)
	}
}

// fate of a goroutine with respect to reuseConnection: "in" (still inside), "sleep" (the accept loop's
// goroutine sleeping before the delayed close: the negotiation returned an error), "out" (left it, still
// running something else), "gone" (finished).
func fateOf(gid int64) string {
	buf := make([]byte, 1<<20)
	for {
		n := runtime.Stack(buf, true)
		if n < len(buf) {
			buf = buf[:n]
			break
		}
		buf = make([]byte, 2*len(buf))
	}
	hdr := []byte("goroutine " + strconv.FormatInt(gid, 10) + " [")
	i := bytes.Index(buf, hdr)
	for i > 0 && buf[i-1] != '\n' {
		j := bytes.Index(buf[i+1:], hdr)
		if j < 0 {
			i = -1
			break
		}
		i += 1 + j
	}
	if i < 0 {
		return "gone"
	}
	sec := buf[i:]
	if e := bytes.Index(sec, []byte("\n\n")); e >= 0 {
		sec = sec[:e]
	}
	switch {
	case bytes.Contains(sec, []byte(".reuseConnection(")):
		return "in"
	case bytes.Contains(sec, []byte("AcceptWithListener")) && bytes.Contains(sec, []byte("time.Sleep")):
		return "sleep"
	}
	return "out"
}

func waitLeft(gid int64, d time.Duration) string {
	end := time.Now().Add(d)
	wait := 100 * time.Microsecond
	for {
		f := fateOf(gid)
		if f != "in" || time.Now().After(end) {
			return f
		}
		time.Sleep(wait)
		if wait < 2*time.Millisecond {
			wait *= 2
		}
	}
}
