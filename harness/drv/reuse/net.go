//go:build verif

package main

import (
	"context"
	"crypto/ecdsa"
	"crypto/elliptic"
	"crypto/rand"
	"crypto/tls"
	"crypto/x509"
	"crypto/x509/pkix"
	"errors"
	"math/big"
	"net"
	"strings"
	"sync"
	"sync/atomic"
	"time"

	"go.miragespace.co/specter/overlay"
	"go.miragespace.co/specter/spec/protocol"
	"go.miragespace.co/specter/spec/transport/q"
	"go.miragespace.co/specter/spec/tun"

	"github.com/quic-go/quic-go"
	"go.uber.org/zap"
	"go.uber.org/zap/zapcore"
	"go.uber.org/zap/zaptest/observer"
)

var (
	alpn     = tun.ALPN(protocol.Link_SPECTER_CHORD)
	certOnce sync.Once
	theCert  tls.Certificate
)

func selfSigned() tls.Certificate {
	certOnce.Do(func() {
		key, _ := ecdsa.GenerateKey(elliptic.P256(), rand.Reader)
		tmpl := &x509.Certificate{SerialNumber: big.NewInt(1), Subject: pkix.Name{CommonName: "verif"},
			NotBefore: time.Now().Add(-time.Hour), NotAfter: time.Now().Add(24 * time.Hour),
			KeyUsage: x509.KeyUsageDigitalSignature, ExtKeyUsage: []x509.ExtKeyUsage{x509.ExtKeyUsageServerAuth, x509.ExtKeyUsageClientAuth},
			IPAddresses: []net.IP{net.ParseIP("127.0.0.1")}}
		der, err := x509.CreateCertificate(rand.Reader, tmpl, tmpl, &key.PublicKey, key)
		if err != nil {
			panic(err)
		}
		theCert = tls.Certificate{Certificate: [][]byte{der}, PrivateKey: key}
	})
	return theCert
}

func tlsConf() *tls.Config {
	return &tls.Config{Certificates: []tls.Certificate{selfSigned()}, InsecureSkipVerify: true, NextProtos: []string{alpn}}
}

// ---------------------------------------------------------------------------------------------
// holdConn: the UDP socket of a peer; the driver can hold back (queue) or drop what the peer sends.

const (
	netPass = iota
	netHold
	netDrop
)

type pkt struct {
	b    []byte
	addr net.Addr
}

type holdConn struct {
	net.PacketConn
	mu    sync.Mutex
	mode  int
	queue []pkt
}

func (h *holdConn) WriteTo(b []byte, addr net.Addr) (int, error) {
	h.mu.Lock()
	switch h.mode {
	case netHold:
		cp := make([]byte, len(b))
		copy(cp, b)
		h.queue = append(h.queue, pkt{cp, addr})
		h.mu.Unlock()
		return len(b), nil
	case netDrop:
		h.mu.Unlock()
		return len(b), nil
	}
	h.mu.Unlock()
	return h.PacketConn.WriteTo(b, addr)
}

func (h *holdConn) set(mode int) {
	h.mu.Lock()
	old := h.mode
	h.mode = mode
	var flush []pkt
	if mode == netPass && old == netHold {
		flush = h.queue
		h.queue = nil
	}
	if mode == netDrop {
		h.queue = nil
	}
	h.mu.Unlock()
	for _, p := range flush {
		h.PacketConn.WriteTo(p.b, p.addr)
	}
}

func (h *holdConn) held() bool {
	h.mu.Lock()
	defer h.mu.Unlock()
	return h.mode == netHold
}

// ---------------------------------------------------------------------------------------------
// wrappers that tell the driver which *quic.Conn objects a peer dials and accepts

// handleCore turns handlePeer's first log line into the gate reuse:handle (direction taken from the logger's fields)
type handleCore struct{ dir uint64 }

func (h *handleCore) Enabled(l zapcore.Level) bool { return l == zapcore.DebugLevel }
func (h *handleCore) With(fs []zapcore.Field) zapcore.Core {
	n := &handleCore{dir: h.dir}
	for _, f := range fs {
		if f.Key == "direction" {
			n.dir = overlay.VerifDirOutgoing
			if strings.HasPrefix(strings.ToLower(f.String), "in") {
				n.dir = overlay.VerifDirIncoming
			}
		}
	}
	return n
}
func (h *handleCore) Check(e zapcore.Entry, ce *zapcore.CheckedEntry) *zapcore.CheckedEntry {
	if h.Enabled(e.Level) {
		return ce.AddCore(e, h)
	}
	return ce
}
func (h *handleCore) Write(e zapcore.Entry, _ []zapcore.Field) error {
	if strings.HasPrefix(e.Message, "Starting goroutines to handle streams") {
		at("reuse:handle", h.dir)
	}
	return nil
}
func (h *handleCore) Sync() error { return nil }

type dialRec struct {
	mu     sync.Mutex
	conns  []*quic.Conn
	tokens int32 // DialEarly calls still allowed (a retry of getCachedConnection is suppressed)
	denied int32
}

type recDialer struct {
	tr  *quic.Transport
	rec *dialRec
}

var errRedial = errors.New("verif: redial suppressed")

func (d recDialer) DialEarly(ctx context.Context, addr net.Addr, tlsConf *tls.Config, config *quic.Config) (*quic.Conn, error) {
	if atomic.AddInt32(&d.rec.tokens, -1) < 0 {
		atomic.AddInt32(&d.rec.denied, 1)
		return nil, errRedial
	}
	c, err := d.tr.DialEarly(ctx, addr, tlsConf, config)
	if err == nil {
		d.rec.mu.Lock()
		d.rec.conns = append(d.rec.conns, c)
		d.rec.mu.Unlock()
	}
	return c, err
}

func (r *dialRec) count() int {
	r.mu.Lock()
	defer r.mu.Unlock()
	return len(r.conns)
}

func (r *dialRec) get(i int) *quic.Conn {
	r.mu.Lock()
	defer r.mu.Unlock()
	if i < len(r.conns) {
		return r.conns[i]
	}
	return nil
}

type recListener struct {
	q.Listener
	mu    sync.Mutex
	conns []*quic.Conn
}

func (l *recListener) Accept(ctx context.Context) (*quic.Conn, error) {
	c, err := l.Listener.Accept(ctx)
	if err == nil {
		l.mu.Lock()
		l.conns = append(l.conns, c)
		l.mu.Unlock()
	}
	return c, err
}

func (l *recListener) count() int {
	l.mu.Lock()
	defer l.mu.Unlock()
	return len(l.conns)
}

func (l *recListener) get(i int) *quic.Conn {
	l.mu.Lock()
	defer l.mu.Unlock()
	if i < len(l.conns) {
		return l.conns[i]
	}
	return nil
}

// ---------------------------------------------------------------------------------------------
// a real overlay.QUIC transport on its own loopback UDP socket

type peer struct {
	name   string
	t      *overlay.QUIC
	id     *protocol.Node
	udp    *net.UDPConn
	hc     *holdConn
	tr     *quic.Transport
	mux    *overlay.ALPNMux
	dials  *dialRec
	ln     *recListener
	logs   *observer.ObservedLogs
	accGid int64
	cancel context.CancelFunc
}

func listenUDP() *net.UDPConn {
	udp, err := net.ListenUDP("udp4", &net.UDPAddr{IP: net.ParseIP("127.0.0.1")})
	if err != nil {
		panic(err)
	}
	return udp
}

func newPeer(name string, g *group) *peer { return newPeerOn(name, g, listenUDP()) }

func newPeerOn(name string, g *group, udp *net.UDPConn) *peer {
	hc := &holdConn{PacketConn: udp}
	tr := &quic.Transport{Conn: hc}
	mux, err := overlay.NewMux(tr)
	if err != nil {
		panic(err)
	}
	ctx, cancel := context.WithCancel(context.Background())
	cfg := tlsConf()
	ln := &recListener{Listener: mux.With(cfg, alpn)}
	go mux.Accept(ctx)
	core, logs := observer.New(zapcore.InfoLevel)
	// handlePeer announces itself with a debug line that carries the direction of the connection: that line is a gate
	// ("reuse:handle": the negotiation has returned a fresh connection, its handlers are about to start)
	core = zapcore.NewTee(core, &handleCore{})
	id := &protocol.Node{Address: udp.LocalAddr().String()}
	dr := &dialRec{}
	t := overlay.NewQUIC(overlay.TransportConfig{Logger: zap.New(core), VirtualTransport: true, ClientTLS: cfg,
		QuicTransport: recDialer{tr, dr}, Endpoint: id})
	p := &peer{name: name, t: t, id: id, udp: udp, hc: hc, tr: tr, mux: mux, dials: dr, ln: ln, logs: logs, cancel: cancel}
	ready := make(chan struct{})
	go func() {
		p.accGid, _ = goids()
		reg.Store(p.accGid, &gctl{g: g, peer: name, acceptor: true})
		close(ready)
		t.AcceptWithListener(ctx, ln)
	}()
	<-ready
	go func() { // drain accepted application streams
		for {
			select {
			case d := <-t.AcceptStream():
				_ = d
			case <-ctx.Done():
				return
			}
		}
	}()
	return p
}

func (p *peer) node() *protocol.Node { return &protocol.Node{Address: p.id.Address, Id: 1} }

func (p *peer) close() {
	reg.Delete(p.accGid)
	p.hc.set(netDrop)
	p.cancel()
	p.t.Stop()
	p.mux.Close()
	p.tr.Close()
	p.udp.Close()
}

func (p *peer) retries() int {
	return p.logs.FilterMessageSnippet("Potential connection reuse conflict").Len()
}

// connState describes how one end sees a connection: nil while open.
type connState struct {
	Code   int64  `json:"code"`
	Remote bool   `json:"remote"`
	Other  string `json:"other,omitempty"`
}

func stateOf(c *quic.Conn) *connState {
	if c == nil || c.Context().Err() == nil {
		return nil
	}
	cause := context.Cause(c.Context())
	var ae *quic.ApplicationError
	if errors.As(cause, &ae) {
		return &connState{Code: int64(ae.ErrorCode), Remote: ae.Remote}
	}
	s := "closed"
	if cause != nil {
		s = cause.Error()
	}
	return &connState{Code: -1, Other: s}
}
