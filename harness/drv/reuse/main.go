//go:build verif

// Driver for spec/Reuse.tla and spec/ReuseTable.tla (C41): real overlay.QUIC transports on loopback UDP.
//
//	reuse sched [workers]   stdin: behaviours of Reuse (Mode = "gen"); each is enforced with the gates of
//	                        overlay/reuse.go and by holding back the datagrams of a peer; the observed
//	                        projection after every step is answered
//	reuse cells [workers]   stdin: cells of the decision table; each is driven on a real transport against
//	                        a scripted QUIC peer
//	reuse e2e               uncontrolled sequential dials through the public API
package main

import (
	"encoding/json"
	"fmt"
	"os"
	"strconv"
	"sync"

	"go.miragespace.co/specter/internal/verifkit"
	"go.miragespace.co/specter/util/verifhook"
)

func workers(def int) int {
	if len(os.Args) > 2 {
		if n, err := strconv.Atoi(os.Args[2]); err == nil && n > 0 {
			return n
		}
	}
	return def
}

func parallel(n int, raws []json.RawMessage, fn func(i int, raw json.RawMessage) any) {
	var wg sync.WaitGroup
	ch := make(chan int)
	for w := 0; w < n; w++ {
		wg.Add(1)
		go func() {
			defer wg.Done()
			for i := range ch {
				var out any
				if p := verifkit.Recover(func() { out = fn(i, raws[i]) }); p != "" {
					out = map[string]any{"issues": []string{"driver panic: " + p}}
				}
				verifkit.Answer(i, out)
			}
		}()
	}
	for i := range raws {
		ch <- i
	}
	close(ch)
	wg.Wait()
}

func main() {
	if len(os.Args) < 2 {
		fmt.Fprintln(os.Stderr, "usage: reuse sched|cells|e2e [workers]")
		os.Exit(2)
	}
	os.Setenv("QUIC_GO_DISABLE_RECEIVE_BUFFER_WARNING", "true")
	verifhook.AtFn = at
	selfSigned()
	var raws []json.RawMessage
	if os.Args[1] != "e2e" {
		verifkit.EachCase(func(i int, raw json.RawMessage) { raws = append(raws, raw) })
	}
	switch os.Args[1] {
	case "sched":
		parallel(workers(6), raws, func(i int, raw json.RawMessage) any {
			return runScenario(verifkit.Decode[Scenario](raw))
		})
	case "cells":
		parallel(workers(8), raws, func(i int, raw json.RawMessage) any {
			return runCell(verifkit.Decode[Cell](raw))
		})
	case "e2e":
		verifkit.Emit(runE2E())
	default:
		fmt.Fprintln(os.Stderr, "unknown mode", os.Args[1])
		os.Exit(2)
	}
	verifkit.Flush()
	os.Exit(0)
}
