//go:build verif

package main

import (
	"context"
	"fmt"
	"net"
	"strings"
	"sync"
	"time"

	"go.miragespace.co/specter/overlay"
	"go.miragespace.co/specter/spec/protocol"

	"github.com/quic-go/quic-go"
)

// A scenario is a behaviour of spec/Reuse.tla (Mode = "gen"): a pre-existing cache state and a sequence of
// steps.  The driver enforces the order on two real transports and records, after every step, the
// projection of the real state the specification predicts in step.post.

type Post struct {
	Held  []string          `json:"held"`
	AtDec [][]string        `json:"atdec"`
	Cache map[string]string `json:"cache"`
}

type Step struct {
	A    string `json:"a"`
	P    string `json:"p"`
	K    string `json:"k"`
	Post Post   `json:"post"`
}

type Scenario struct {
	Pre   string `json:"pre"`
	Steps []Step `json:"steps"`
	// HoldHandle: an end whose negotiation returned a fresh connection parks where handlePeer starts; step "Handle" lets it go on
	HoldHandle bool `json:"holdhandle"`
}

type Obs struct {
	Cache map[string]string                `json:"cache"`         // peer -> connection name | "-" | "?"
	Cl    map[string]map[string]*connState `json:"cl"`            // connection -> peer -> how that end sees it (null = open)
	Fate  string                           `json:"fate,omitempty"` // Decide: what became of the deciding goroutine
	Err   string                           `json:"err,omitempty"`  // the driver could not perform the step
}

type DialResult struct {
	Err     string `json:"err,omitempty"`
	Conn    string `json:"conn,omitempty"`  // connection DialStream returned a stream on
	Fresh   string `json:"fresh,omitempty"` // connection DialEarly created
	Retried bool   `json:"retried"`         // getCachedConnection retried: the first negotiation returned a reuse error
	Redial  int    `json:"redial"`          // suppressed second dials
	Done    bool   `json:"done"`

	connObj  *quic.Conn
	freshObj *quic.Conn
}

// name resolves the connection objects once the driver has named them (the dial may return before that)
func (r *run) nameDials() {
	r.mu.Lock()
	defer r.mu.Unlock()
	for _, d := range r.dials {
		if d.connObj != nil {
			d.Conn = "?"
			if n, ok := r.names[d.connObj]; ok {
				d.Conn = n
			}
		}
		if d.freshObj != nil {
			d.Fresh = r.names[d.freshObj]
		}
	}
}

type Result struct {
	Steps  []Obs                  `json:"steps"`
	Final  Obs                    `json:"final"`
	Dials  map[string]*DialResult `json:"dials"`
	Fates  map[string]string      `json:"fates"` // "P/K" -> fate of the end after its Decide
	Issues []string               `json:"issues,omitempty"`
}

const idleCode = 0x1d1e

type run struct {
	g      *group
	peers  map[string]*peer
	names  map[*quic.Conn]string
	objs   map[string]map[string]*quic.Conn // connection name -> peer -> object
	dials  map[string]*DialResult
	dialWG sync.WaitGroup
	mu     sync.Mutex
	res    *Result
	sleepy []string // connection names whose accepting end went to sleep (delayed close pending)
}

func other(p string) string {
	if p == "A" {
		return "B"
	}
	return "A"
}

func dialer(k string) string {
	if k == "Y" {
		return "B"
	}
	return "A"
}

func dirOf(p, k string) uint64 {
	if dialer(k) == p {
		return overlay.VerifDirOutgoing
	}
	return overlay.VerifDirIncoming
}

func newRun() *run {
	g := newGroup()
	r := &run{g: g, peers: map[string]*peer{}, names: map[*quic.Conn]string{}, objs: map[string]map[string]*quic.Conn{},
		dials: map[string]*DialResult{}, res: &Result{Fates: map[string]string{}}}
	// A is the peer with the smaller address (the tie-break variant of the specification keeps A's connection)
	u1, u2 := listenUDP(), listenUDP()
	if u1.LocalAddr().String() > u2.LocalAddr().String() {
		u1, u2 = u2, u1
	}
	r.peers["A"] = newPeerOn("A", g, u1)
	r.peers["B"] = newPeerOn("B", g, u2)
	return r
}

func (r *run) close() {
	r.g.releaseAll()
	for _, p := range r.peers {
		p.close()
	}
}

func (r *run) issue(f string, a ...any) { r.res.Issues = append(r.res.Issues, fmt.Sprintf(f, a...)) }

func (r *run) bind(name, p string, c *quic.Conn) {
	if c == nil {
		return
	}
	r.mu.Lock()
	r.names[c] = name
	if r.objs[name] == nil {
		r.objs[name] = map[string]*quic.Conn{}
	}
	r.objs[name][p] = c
	r.mu.Unlock()
}

func (r *run) nameOf(c *quic.Conn) string {
	r.mu.Lock()
	defer r.mu.Unlock()
	if n, ok := r.names[c]; ok {
		return n
	}
	return "?"
}

func (r *run) cached(p string) (*quic.Conn, bool) {
	c, _, ok := r.peers[p].t.VerifCached(r.peers[other(p)].node())
	return c, ok
}

func (r *run) observe() Obs {
	o := Obs{Cache: map[string]string{}, Cl: map[string]map[string]*connState{}}
	for _, p := range []string{"A", "B"} {
		if c, ok := r.cached(p); ok {
			o.Cache[p] = r.nameOf(c)
		} else {
			o.Cache[p] = "-"
		}
	}
	r.mu.Lock()
	for name, m := range r.objs {
		o.Cl[name] = map[string]*connState{}
		for p, c := range m {
			o.Cl[name][p] = stateOf(c)
		}
	}
	r.mu.Unlock()
	return o
}

func waitFor(d time.Duration, cond func() bool) bool {
	end := time.Now().Add(d)
	for {
		if cond() {
			return true
		}
		if time.Now().After(end) {
			return false
		}
		time.Sleep(300 * time.Microsecond)
	}
}

// startDial runs a real DialStream from the dialer of k to the other peer in its own goroutine.
func (r *run) startDial(k string, control bool) {
	from, to := r.peers[dialer(k)], r.peers[other(dialer(k))]
	dr := &DialResult{}
	r.mu.Lock()
	r.dials[k] = dr
	r.mu.Unlock()
	before := from.dials.count()
	retriesBefore := from.retries()
	from.dials.tokens = 1
	r.dialWG.Add(1)
	ready := make(chan struct{})
	go func() {
		defer r.dialWG.Done()
		gid, _ := goids()
		reg.Store(gid, &gctl{g: r.g, peer: from.name, control: control})
		defer reg.Delete(gid)
		close(ready)
		ctx, cancel := context.WithTimeout(context.Background(), 20*time.Second)
		defer cancel()
		c, err := from.t.DialStream(ctx, to.node(), protocol.Stream_RPC)
		r.mu.Lock()
		defer r.mu.Unlock()
		if err != nil {
			dr.Err = err.Error()
		} else {
			dr.connObj = overlay.VerifConnOf(c)
			keepOpen(c)
		}
		dr.freshObj = from.dials.get(before)
		dr.Retried = from.retries() > retriesBefore
		dr.Redial = int(from.dials.denied)
		dr.Done = true
	}()
	<-ready
}

var (
	keptMu sync.Mutex
	kept   []net.Conn
)

// streams returned by DialStream are left open: closing them makes the transport reset the stream a second
// later, traffic that would reveal a silently dead connection to its holder at an uncontrolled time
func keepOpen(c net.Conn) {
	keptMu.Lock()
	kept = append(kept, c)
	keptMu.Unlock()
}

// bindNew names the connection objects a dial created on both sides.
func (r *run) bindNew(k string, dialsBefore, accBefore int) error {
	from, to := r.peers[dialer(k)], r.peers[other(dialer(k))]
	ok := waitFor(5*time.Second, func() bool { return from.dials.count() > dialsBefore && to.ln.count() > accBefore })
	if !ok {
		return fmt.Errorf("connection %s was not established (dialed %d accepted %d)", k, from.dials.count()-dialsBefore, to.ln.count()-accBefore)
	}
	r.bind(k, from.name, from.dials.get(dialsBefore))
	r.bind(k, to.name, to.ln.get(accBefore))
	return nil
}

// setup installs the pre-existing cache state with honest, uncontrolled negotiations.
func (r *run) setup(pre string) error {
	if pre == "none" {
		return nil
	}
	a, b := r.peers["A"], r.peers["B"]
	r.g.ctlIncoming.Store(false)
	r.startDial("Z", false)
	if err := r.bindNew("Z", 0, 0); err != nil {
		return err
	}
	r.dialWG.Wait()
	if d := r.dials["Z"]; d.Err != "" {
		return fmt.Errorf("setup dial failed: %s", d.Err)
	}
	if !waitFor(3*time.Second, func() bool {
		ca, oka := r.cached("A")
		cb, okb := r.cached("B")
		return oka && okb && r.nameOf(ca) == "Z" && r.nameOf(cb) == "Z"
	}) {
		return fmt.Errorf("setup: Z not cached by both peers")
	}
	if pre == "both" {
		return nil
	}
	// the negotiation stream of Z is reset a second after the negotiation (quicConn.Close); let that pass
	// while Z is alive, afterwards nothing is sent on Z until the keep-alive period (5 s)
	time.Sleep(1250 * time.Millisecond)
	reaper, holder := b, a
	if pre == "bOnly" {
		reaper, holder = a, b
	}
	// the reaping peer loses the connection and its CONNECTION_CLOSE never arrives: the holder keeps a dead entry
	reaper.hc.set(netDrop)
	reaper.t.VerifReapPeer(r.objs["Z"][reaper.name], holder.node())
	time.Sleep(5 * time.Millisecond)
	reaper.hc.set(netPass)
	if _, ok := r.cached(reaper.name); ok {
		return fmt.Errorf("setup: %s still caches Z after reapPeer", reaper.name)
	}
	if c, ok := r.cached(holder.name); !ok || r.nameOf(c) != "Z" || stateOf(c) != nil {
		return fmt.Errorf("setup: %s does not hold a live-looking Z", holder.name)
	}
	return nil
}

func (r *run) applyHolds(held []string) {
	for _, p := range []string{"A", "B"} {
		want := netPass
		for _, h := range held {
			if h == p {
				want = netHold
			}
		}
		r.peers[p].hc.set(want)
	}
}

func (r *run) step(st Step) Obs {
	const gateWait = 8 * time.Second
	var serr error
	fate := ""
	r.applyHolds(st.Post.Held)
	switch st.A {
	case "Dial":
		from, to := r.peers[dialer(st.K)], r.peers[other(dialer(st.K))]
		db, ab := from.dials.count(), to.ln.count()
		r.g.ctlIncoming.Store(true)
		r.startDial(st.K, true)
		if serr = r.bindNew(st.K, db, ab); serr == nil {
			for _, p := range []string{"A", "B"} {
				if _, err := r.g.waitPark(p, dirOf(p, st.K), "reuse:read", gateWait); err != nil {
					serr = err
				}
			}
		}
	case "Read":
		d := dirOf(st.P, st.K)
		if _, serr = r.g.waitPark(st.P, d, "reuse:read", gateWait); serr == nil {
			r.g.resume(st.P, d)
			if _, serr = r.g.waitPark(st.P, d, "reuse:status", gateWait); serr == nil {
				r.g.resume(st.P, d) // the status is sent; the end then waits for the peer's status
			}
		}
	case "Decide":
		d := dirOf(st.P, st.K)
		var pk *park
		if pk, serr = r.g.waitPark(st.P, d, "reuse:decide", gateWait); serr == nil {
			r.g.resume(st.P, d)
			fate = waitLeft(pk.gid, 5*time.Second)
			if d == overlay.VerifDirIncoming {
				// an accepting end either finishes or goes to sleep before the delayed close
				waitFor(2*time.Second, func() bool { fate = fateOf(pk.gid); return fate == "gone" || fate == "sleep" })
				if fate == "sleep" {
					r.sleepy = append(r.sleepy, st.K)
				}
			}
			if fate == "in" {
				serr = fmt.Errorf("end %s/%s did not leave reuseConnection", st.P, st.K)
			}
			r.res.Fates[st.P+"/"+st.K] = fate
		}
	case "Reap":
		// local or delivered trigger: the watcher is already running; remote trigger: the holds were just lifted
		// the watcher runs reapPeer: wait for the entry the specification predicts ("-" unless the variant keeps it)
		want := st.Post.Cache[st.P]
		if want == "" {
			want = "-"
		}
		if !waitFor(3*time.Second, func() bool { return r.observe().Cache[st.P] == want }) {
			serr = fmt.Errorf("%s caches %s after the reap, specification says %s", st.P, r.observe().Cache[st.P], want)
		}
		time.Sleep(time.Millisecond) // reapPeer closes after deleting
	case "Handle":
		d := dirOf(st.P, st.K)
		if _, serr = r.g.waitPark(st.P, d, "reuse:handle", gateWait); serr == nil {
			r.g.resume(st.P, d)
			time.Sleep(5 * time.Millisecond) // the end registers / starts its handlers
		}
	case "Notice":
		if c := r.objs[st.K][st.P]; c != nil {
			c.CloseWithError(idleCode, "verif: idle timeout")
		} else {
			serr = fmt.Errorf("no object for %s at %s", st.K, st.P)
		}
	case "LateClose":
		c := r.objs[st.K][st.P]
		if c == nil || !waitFor(2500*time.Millisecond, func() bool { return stateOf(c) != nil }) {
			serr = fmt.Errorf("%s did not close %s", st.P, st.K)
		}
	default:
		serr = fmt.Errorf("unknown step %s", st.A)
	}
	// every end whose peer status has arrived gets to the decide gate
	if serr == nil {
		for _, e := range st.Post.AtDec {
			if _, err := r.g.waitPark(e[0], dirOf(e[0], e[1]), "reuse:decide", gateWait); err != nil {
				serr = err
			}
		}
	}
	o := r.observe()
	o.Fate = fate
	if serr != nil {
		o.Err = serr.Error()
	}
	return o
}

// settle: lift holds, let every started operation finish, wait for delayed closes and reaps.
func (r *run) settle() {
	r.applyHolds(nil)
	r.g.releaseAll()
	done := make(chan struct{})
	go func() { r.dialWG.Wait(); close(done) }()
	select {
	case <-done:
	case <-time.After(6 * time.Second):
		r.issue("a DialStream call did not return")
	}
	// accepting ends that erred close their connection a second later
	waitFor(2500*time.Millisecond, func() bool {
		for _, k := range r.sleepy {
			if c := r.objs[k][other(dialer(k))]; c != nil && stateOf(c) == nil {
				return false
			}
		}
		return true
	})
	// reaps: no peer keeps an entry whose connection it knows to be closed
	stable := 0
	waitFor(3*time.Second, func() bool {
		for _, p := range []string{"A", "B"} {
			if c, ok := r.cached(p); ok && stateOf(c) != nil {
				stable = 0
				return false
			}
		}
		stable++
		time.Sleep(2 * time.Millisecond)
		return stable >= 5
	})
}

func runScenario(sc Scenario) *Result {
	r := newRun()
	defer r.close()
	if err := r.setup(sc.Pre); err != nil {
		r.issue("setup: %v", err)
		return r.res
	}
	r.g.holdHandle.Store(sc.HoldHandle)
	for _, st := range sc.Steps {
		o := r.step(st)
		r.res.Steps = append(r.res.Steps, o)
		if o.Err != "" {
			r.issue("step %s(%s,%s): %s", st.A, st.P, st.K, o.Err)
			break
		}
	}
	r.settle()
	r.res.Final = r.observe()
	r.nameDials()
	r.mu.Lock()
	r.res.Dials = r.dials
	r.mu.Unlock()
	for k, d := range r.dials {
		if !d.Done {
			r.issue("dial %s not finished", k)
		}
		if strings.Contains(d.Err, "redial suppressed") {
			d.Retried = true
		}
	}
	return r.res
}
