//go:build verif

// Driver for ListKeys.tla (C10): builds, per case, a real ring of chord.LocalNode (explicit ids, per-node store
// memory or SQLite) by sequential joins with the periodic tasks parked, settles it to a maintenance fixpoint,
// stores the content of the case THROUGH the ring (Put / PrefixAppend / Acquire asked at seeded nodes), and calls
// ListKeys(prefix) on EVERY node for every prefix.  The answers are reported as multisets (sorted lists with
// duplicates kept).  Consecutive cases with the same ring (ids, stores, join order) reuse it after the content has
// been removed through the ring again and every store has been verified empty.
package main

import (
	"encoding/hex"
	"context"
	"encoding/json"
	"fmt"
	"os"
	"path/filepath"
	"reflect"
	"sort"
	"strconv"
	"strings"
	"sync"
	"time"

	implchord "go.miragespace.co/specter/chord"
	"go.miragespace.co/specter/internal/verifkit"
	"go.miragespace.co/specter/internal/verifkit/ring"
	"go.miragespace.co/specter/kv/memory"
	"go.miragespace.co/specter/kv/sqlite3"
	"go.miragespace.co/specter/spec/chord"
	"go.miragespace.co/specter/util/verifhook"

	"go.uber.org/zap"
)

type item struct {
	K     string   `json:"k"`
	Kinds []string `json:"kinds"`
}

type lkCase struct {
	IDs      []string `json:"ids"`
	Stores   []string `json:"stores"`
	Order    int64    `json:"order"`
	Content  []item   `json:"content"`
	Prefixes []string `json:"prefixes"`
	Reuse    bool     `json:"reuse"`
	// letter -> byte (hex) used for keys, children of the listing and prefixes on the wire; nil: the letters themselves
	Alphabet map[string]string `json:"alphabet"`
	// one more node that is built with the ring but not joined (id, store kind); Churn: after the first listing a member leaves
	// ("leave") or the spare node joins ("join"), the ring settles and everything is listed again
	Spare      string `json:"spare"`
	SpareStore string `json:"spare_store"`
	Churn      string `json:"churn"`
}

// conc turns an abstract key (letters) into the bytes stored; abs is its inverse for keys that come back
func conc(alpha map[string]string, k string) []byte {
	if len(alpha) == 0 {
		return []byte(k)
	}
	out := []byte{}
	for _, ch := range k {
		h, ok := alpha[string(ch)]
		if !ok {
			panic("letter outside the alphabet: " + string(ch))
		}
		b, err := hex.DecodeString(h)
		if err != nil {
			panic(err)
		}
		out = append(out, b...)
	}
	return out
}

func abs(alpha map[string]string, k []byte) string {
	if len(alpha) == 0 {
		return string(k)
	}
	out := ""
	for _, b := range k {
		found := false
		for l, h := range alpha {
			if h == hex.EncodeToString([]byte{b}) {
				out += l
				found = true
			}
		}
		if !found {
			return "?" + hex.EncodeToString(k)
		}
	}
	return out
}

type nodeReg struct {
	mu sync.RWMutex
	m  map[uint64]*implchord.LocalNode
}

func (r *nodeReg) put(n *implchord.LocalNode) {
	r.mu.Lock()
	r.m[n.ID()] = n
	r.mu.Unlock()
}
func (r *nodeReg) get(id uint64) (*implchord.LocalNode, bool) {
	r.mu.RLock()
	n, ok := r.m[id]
	r.mu.RUnlock()
	return n, ok
}

var (
	tmpRoot string
	nRing   int
	byID    = &nodeReg{m: map[uint64]*implchord.LocalNode{}}
	never   = make(chan struct{})
)

type liveRing struct {
	sig    string
	r      *ring.Ring
	nodes  []*implchord.LocalNode // in join order
	byIdx  []*implchord.LocalNode // index = position in the case's ids
	closer []func()
	dir    string
	stable bool
	clean  bool
}

var cur *liveRing

func (l *liveRing) settle() bool {
	for rd := 0; rd < 40; rd++ {
		before := l.r.Snapshot(true, false)
		for _, n := range l.nodes {
			n.VerifStabilize()
			n.VerifCheckPred()
			n.VerifFixFinger()
		}
		if reflect.DeepEqual(before, l.r.Snapshot(true, false)) {
			return true
		}
	}
	return false
}

// teardown closes the stores.  The nodes are not asked to leave: with the periodic tasks parked nothing runs on them
// any more (every operation of the driver is synchronous), and a graceful Leave of every node without maintenance in
// between spends seconds in retry back-off.  The parked task goroutines stay parked until the process exits.
func (l *liveRing) teardown() {
	for _, c := range l.closer {
		c()
	}
	os.RemoveAll(l.dir)
}

func sigOf(c lkCase) string {
	return strings.Join(c.IDs, ",") + "|" + strings.Join(c.Stores, ",") + "|" + strconv.FormatInt(c.Order, 10) + "|" + c.Spare + c.SpareStore
}

func build(c lkCase) (*liveRing, string) {
	nRing++
	l := &liveRing{sig: sigOf(c), dir: filepath.Join(tmpRoot, fmt.Sprintf("ring%d", nRing))}
	layout := make([]ring.Item, len(c.IDs))
	for k, sid := range c.IDs {
		v, err := strconv.ParseUint(sid, 10, 64)
		if err != nil {
			return nil, "bad id " + sid
		}
		layout[k] = ring.Item{N: strconv.Itoa(k), ID: v, Zero: v == 0}
	}
	if c.Spare != "" {
		v, err := strconv.ParseUint(c.Spare, 10, 64)
		if err != nil {
			return nil, "bad id " + c.Spare
		}
		layout = append(layout, ring.Item{N: "s", ID: v, Zero: v == 0})
	}
	l.r = ring.Build(layout, verifkit.Seed(), 0, zap.NewNop())
	l.r.MkKV = func(name string) chord.KVProvider {
		kind := c.SpareStore
		if name != "s" {
			k, _ := strconv.Atoi(name)
			kind = c.Stores[k]
		}
		switch kind {
		case "sqlite":
			d := filepath.Join(l.dir, "n"+name)
			os.MkdirAll(d, 0o755)
			s, err := sqlite3.New(sqlite3.Config{Logger: zap.NewNop(), HashFn: chord.Hash, DataDir: d})
			if err != nil {
				panic("sqlite3.New: " + err.Error())
			}
			l.closer = append(l.closer, s.Close)
			return s
		default:
			return memory.WithHashFn(chord.Hash)
		}
	}
	rnd := verifkit.Rand(c.Order)
	order := rnd.Perm(len(c.IDs))
	l.byIdx = make([]*implchord.LocalNode, len(c.IDs))
	t0 := time.Now()
	defer func() {
		if os.Getenv("VERIF_DEBUG") != "" {
			fmt.Fprintf(os.Stderr, "ring %d built in %v\n", nRing, time.Since(t0))
		}
	}()
	for k, oi := range order {
		n := l.r.Node(strconv.Itoa(oi))
		byID.put(n)
		if k == 0 {
			if err := n.Create(); err != nil {
				return l, "create: " + err.Error()
			}
		} else {
			via := l.nodes[rnd.Intn(len(l.nodes))]
			if err := n.Join(via); err != nil {
				return l, "join: " + ring.ErrClass(err)
			}
		}
		l.nodes = append(l.nodes, n)
		l.byIdx[oi] = n
		l.settle()
	}
	l.stable = l.settle()
	l.clean = true
	return l, ""
}

type stored struct {
	key      string
	children []string
	token    uint64
	simple   bool
}

func runCase(i int, c lkCase) map[string]any {
	out := map[string]any{}
	if cur != nil && !(c.Reuse && cur.clean && cur.stable && cur.sig == sigOf(c)) {
		cur.teardown()
		cur = nil
	}
	out["reused"] = cur != nil
	if cur == nil {
		l, errs := build(c)
		if errs != "" {
			if l != nil {
				l.teardown()
			}
			out["err"] = errs
			return out
		}
		cur = l
	}
	l := cur
	out["stable"] = l.stable
	if !l.stable {
		l.clean = false
		return out
	}
	ctx := context.Background()
	rnd := verifkit.Rand(c.Order*1000003 + int64(i))
	pick := func() (int, *implchord.LocalNode) {
		k := rnd.Intn(len(l.byIdx))
		return k, l.byIdx[k]
	}
	// store the content through the ring, operations in seeded order, each asked at a seeded node
	type op struct {
		key, kind, child string
	}
	var ops []op
	for _, it := range c.Content {
		for _, kd := range it.Kinds {
			switch kd {
			case "PREFIX":
				ops = append(ops, op{it.K, kd, "c1"})
				if rnd.Intn(2) == 0 {
					ops = append(ops, op{it.K, kd, "c2"}) // two children are still ONE entry of kind PREFIX
				}
				if rnd.Intn(2) == 0 {
					ops = append(ops, op{it.K, kd, "cx"}) // a third child that is removed again once everything is stored: the key still holds children
				}
			default:
				ops = append(ops, op{it.K, kd, ""})
			}
		}
	}
	rnd.Shuffle(len(ops), func(a, b int) { ops[a], ops[b] = ops[b], ops[a] })
	st := map[string]*stored{}
	var storeLog [][]any
	l.clean = false
	for _, o := range ops {
		s := st[o.key]
		if s == nil {
			s = &stored{key: o.key}
			st[o.key] = s
		}
		at, n := pick()
		var err error
		switch o.kind {
		case "SIMPLE":
			err = n.Put(ctx, conc(c.Alphabet, o.key), []byte("v-"+o.key)) // never the empty value (known finding of C16)
			s.simple = err == nil
		case "PREFIX":
			err = n.PrefixAppend(ctx, conc(c.Alphabet, o.key), []byte(o.child))
			if err == nil && o.child != "cx" {
				s.children = append(s.children, o.child)
			}
		case "LEASE":
			s.token, err = n.Acquire(ctx, conc(c.Alphabet, o.key), time.Hour)
		}
		storeLog = append(storeLog, []any{o.key, o.kind, o.child, at, ring.ErrClass(err)})
	}
	for _, o := range ops {
		if o.child == "cx" {
			at, n := pick()
			err := n.PrefixRemove(ctx, conc(c.Alphabet, o.key), []byte("cx"))
			storeLog = append(storeLog, []any{o.key, "UNPREFIX", o.child, at, ring.ErrClass(err)})
		}
	}
	out["store"] = storeLog
	// where the data went (direct look into every store)
	place := make([][][]string, len(l.byIdx))
	for k, n := range l.byIdx {
		ks, err := n.VerifKV().ListKeys(ctx, nil)
		place[k] = [][]string{}
		if err != nil {
			place[k] = append(place[k], []string{"error", err.Error()})
		}
		for _, kc := range ks {
			place[k] = append(place[k], []string{abs(c.Alphabet, kc.GetKey()), kc.GetType().String()})
		}
		sort.Slice(place[k], func(a, b int) bool { return place[k][a][0]+"\x00"+place[k][a][1] < place[k][b][0]+"\x00"+place[k][b][1] })
	}
	out["place"] = place
	// the observation: every node, every prefix
	var lists [][]any
	for k, n := range l.byIdx {
		for pi, p := range c.Prefixes {
			ks, err := n.ListKeys(ctx, conc(c.Alphabet, p))
			got := [][]string{}
			for _, kc := range ks {
				got = append(got, []string{abs(c.Alphabet, kc.GetKey()), kc.GetType().String()})
			}
			sort.Slice(got, func(a, b int) bool { return got[a][0]+"\x00"+got[a][1] < got[b][0]+"\x00"+got[b][1] })
			lists = append(lists, []any{k, pi, got, ring.ErrClass(err)})
		}
	}
	out["lists"] = lists
	if c.Churn != "" {
		// a membership change with the content in place, then the same listings again
		cerr := "ok"
		switch c.Churn {
		case "leave":
			if len(l.nodes) >= 2 {
				k, victim := pick()
				victim.Leave()
				l.byIdx[k] = nil
				var rest []*implchord.LocalNode
				for _, n := range l.nodes {
					if n != victim {
						rest = append(rest, n)
					}
				}
				l.nodes = rest
				out["churned"] = k
			}
		case "join":
			sp := l.r.Node("s")
			byID.put(sp)
			via := l.nodes[rnd.Intn(len(l.nodes))]
			if err := sp.Join(via); err != nil {
				cerr = "join: " + ring.ErrClass(err)
			} else {
				l.nodes = append(l.nodes, sp)
				l.byIdx = append(l.byIdx, sp)
				out["churned"] = len(l.byIdx) - 1
			}
		}
		out["churn_err"] = cerr
		out["stable2"] = l.settle()
		var lists2 [][]any
		for k, n := range l.byIdx {
			if n == nil {
				continue
			}
			for pi, p := range c.Prefixes {
				ks, err := n.ListKeys(ctx, conc(c.Alphabet, p))
				got := [][]string{}
				for _, kc := range ks {
					got = append(got, []string{abs(c.Alphabet, kc.GetKey()), kc.GetType().String()})
				}
				sort.Slice(got, func(a, b int) bool { return got[a][0]+"\x00"+got[a][1] < got[b][0]+"\x00"+got[b][1] })
				lists2 = append(lists2, []any{k, pi, got, ring.ErrClass(err)})
			}
		}
		out["lists2"] = lists2
		l.stable = false // the ring is not the one of the case any more: the next case builds its own
		out["cleaned"] = true
		return out
	}
	// remove the content through the ring again and verify that every store is empty
	clean := true
	for _, s := range st {
		_, n := pick()
		if s.simple {
			if err := n.Delete(ctx, conc(c.Alphabet, s.key)); err != nil {
				clean = false
			}
		}
		for _, ch := range s.children {
			if err := n.PrefixRemove(ctx, conc(c.Alphabet, s.key), []byte(ch)); err != nil {
				clean = false
			}
		}
		if s.token != 0 {
			if err := n.Release(ctx, conc(c.Alphabet, s.key), s.token); err != nil {
				clean = false
			}
		}
	}
	for _, n := range l.byIdx {
		ks, err := n.VerifKV().ListKeys(ctx, nil)
		if err != nil || len(ks) != 0 {
			clean = false
		}
	}
	l.clean = clean
	out["cleaned"] = clean
	return out
}

func main() {
	var err error
	tmpRoot, err = os.MkdirTemp("", "verif-listkeys-")
	if err != nil {
		panic(err)
	}
	defer os.RemoveAll(tmpRoot)
	cache := os.Getenv("VERIF_WAZERO_CACHE")
	if cache == "" {
		cache = filepath.Join(os.TempDir(), "verif-wazero-cache")
	}
	os.MkdirAll(cache, 0o755)
	if err := sqlite3.Initialize(cache); err != nil {
		panic(err)
	}
	sched := verifkit.NewSched()
	sched.TaskStop = func(id uint64) <-chan struct{} {
		if n, ok := byID.get(id); ok {
			return n.VerifStopCh()
		}
		return never
	}
	verifhook.AtFn = sched.At
	if len(os.Args) > 1 && os.Args[1] == "hash" { // the identifiers of the keys, so that the check can place node ids around them
		verifkit.EachCase(func(i int, raw json.RawMessage) {
			in := verifkit.Decode[struct {
				Keys     []string          `json:"keys"`
				Alphabet map[string]string `json:"alphabet"`
			}](raw)
			keys := in.Keys
			hs := make([]string, len(keys))
			for k, key := range keys {
				hs[k] = strconv.FormatUint(chord.Hash(conc(in.Alphabet, key)), 10)
			}
			verifkit.Answer(i, hs)
		})
		return
	}
	verifkit.EachCase(func(i int, raw json.RawMessage) {
		c := verifkit.Decode[lkCase](raw)
		var res map[string]any
		if p := verifkit.Recover(func() { res = runCase(i, c) }); p != "" {
			res = map[string]any{"err": "panic: " + p}
			if cur != nil {
				cur.clean = false
			}
		}
		verifkit.Answer(i, res)
	})
	if cur != nil {
		cur.teardown()
	}
	os.RemoveAll(tmpRoot)
}
