//go:build verif

// Driver for AOF.tla (C20, C21, C22): "run" applies a history of mutations to the append-only-log store in a directory and
// acknowledges each on stdout (run under strace by lib/fsrec.py); "open" reopens directory images and projects the store.
package main

import (
	"bufio"
	"context"
	"encoding/json"
	"fmt"
	"os"
	"sort"
	"time"

	"go.miragespace.co/specter/internal/verifkit"
	"go.miragespace.co/specter/kv/aof"
	"go.miragespace.co/specter/spec/chord"
	"go.miragespace.co/specter/spec/protocol"

	"go.uber.org/zap"
)

type Mut struct {
	T string `json:"t"` // put del app rem imp rmk
	K string `json:"k"`
	V string `json:"v"`
	C string `json:"c"`
	N int    `json:"n"` // put: value padded to n bytes (segment cycling)
	// imp: the transfer also carries a lease token; Fill further keys f<ID>-000.. travel in the same Import call
	Lease bool   `json:"lease"`
	Fill  int    `json:"fill"`
	ID    string `json:"id"`
}

type History struct {
	Dir    string   `json:"dir"`
	Muts   []Mut    `json:"muts"`
	Stop   bool     `json:"stop"`   // clean Stop() at the end
	Cycles [][]Mut  `json:"cycles"` // further stop/reopen cycles (C21)
	Keys   []string `json:"keys"`
}

func openKV(dir string) (*aof.DiskKV, error) {
	kv, err := aof.New(aof.Config{Logger: zap.NewNop(), HasnFn: chord.Hash, DataDir: dir, FlushInterval: time.Hour})
	if err != nil {
		return nil, err
	}
	go kv.Start()
	return kv, nil
}

func value(m Mut) []byte {
	v := []byte(m.V)
	for len(v) < m.N {
		v = append(v, 'x')
	}
	return v
}

func apply(kv *aof.DiskKV, m Mut) string {
	ctx := context.Background()
	var err error
	switch m.T {
	case "put":
		err = kv.Put(ctx, []byte(m.K), value(m))
	case "del":
		err = kv.Delete(ctx, []byte(m.K))
	case "app":
		err = kv.PrefixAppend(ctx, []byte(m.K), []byte(m.C))
	case "rem":
		err = kv.PrefixRemove(ctx, []byte(m.K), []byte(m.C))
	case "imp":
		tr := &protocol.KVTransfer{SimpleValue: []byte(m.V)}
		if m.C != "" {
			tr.PrefixChildren = [][]byte{[]byte(m.C)}
		}
		if m.Lease {
			tr.LeaseToken = 4242
		}
		keys, vals := [][]byte{[]byte(m.K)}, []*protocol.KVTransfer{tr}
		for j := 0; j < m.Fill; j++ { // further keys of the same Import call (one acknowledged mutation)
			keys = append(keys, []byte(fmt.Sprintf("f%s-%03d", m.ID, j)))
			vals = append(vals, &protocol.KVTransfer{SimpleValue: []byte("1")})
		}
		err = kv.Import(ctx, keys, vals)
	case "rmk":
		err = kv.RemoveKeys(ctx, [][]byte{[]byte(m.K)})
	}
	if err == nil {
		return "ok"
	}
	if err == chord.ErrKVPrefixConflict {
		return "conflict"
	}
	return "error:" + err.Error()
}

func project(kv *aof.DiskKV, keys []string) map[string]any {
	ctx := context.Background()
	simple := map[string]any{}
	kids := map[string][]string{}
	for _, k := range keys {
		v, _ := kv.Get(ctx, []byte(k))
		if len(v) > 16 {
			simple[k] = fmt.Sprintf("%s#%d", string(v[:8]), len(v))
		} else {
			simple[k] = string(v)
		}
		ch, _ := kv.PrefixList(ctx, []byte(k))
		l := []string{}
		for _, c := range ch {
			l = append(l, string(c))
		}
		sort.Strings(l)
		kids[k] = l
	}
	fill := 0 // keys brought by the filler part of imports
	if ks, err := kv.ListKeys(ctx, []byte("f")); err == nil {
		for _, k := range ks {
			if k.GetType() == protocol.KeyComposite_SIMPLE {
				fill++
			}
		}
	}
	return map[string]any{"simple": simple, "kids": kids, "fill": fill}
}

func main() {
	switch os.Args[1] {
	case "run":
		var h History
		if err := json.NewDecoder(os.Stdin).Decode(&h); err != nil {
			panic(err)
		}
		kv, err := openKV(h.Dir)
		if err != nil {
			fmt.Printf("OPEN-ERROR %v\n", err)
			os.Exit(3)
		}
		out := os.Stdout
		n := 0
		run := func(ms []Mut) {
			for _, m := range ms {
				res := apply(kv, m)
				n++
				// one write syscall per acknowledgement: the recorder orders it against the file operations
				out.WriteString(fmt.Sprintf("ACK %d %s\n", n, res))
			}
		}
		run(h.Muts)
		b, _ := json.Marshal(project(kv, h.Keys))
		if h.Stop {
			kv.Stop()
			out.WriteString("STOPPED " + string(b) + "\n")
			for _, cyc := range h.Cycles {
				kv, err = openKV(h.Dir)
				if err != nil {
					out.WriteString(fmt.Sprintf("REOPEN-ERROR %v\n", err))
					os.Exit(0)
				}
				b, _ = json.Marshal(project(kv, h.Keys))
				out.WriteString("REOPENED " + string(b) + "\n")
				run(cyc)
				b, _ = json.Marshal(project(kv, h.Keys))
				kv.Stop()
				out.WriteString("STOPPED " + string(b) + "\n")
			}
		} else {
			out.WriteString("FINAL " + string(b) + "\n")
			os.Exit(0) // abrupt: no Stop, no Sync
		}
	case "open":
		var keys []string
		json.Unmarshal([]byte(os.Args[2]), &keys)
		sc := bufio.NewScanner(os.Stdin)
		i := 0
		for sc.Scan() {
			dir := sc.Text()
			var res map[string]any
			p := verifkit.Recover(func() {
				kv, err := aof.New(aof.Config{Logger: zap.NewNop(), HasnFn: chord.Hash, DataDir: dir, FlushInterval: time.Hour})
				if err != nil {
					res = map[string]any{"err": err.Error()}
					return
				}
				res = project(kv, keys)
				go kv.Start()
				if len(os.Args) > 3 && os.Args[3] == "followup" {
					// the recovered store must keep working: acknowledge two more mutations, stop cleanly, open again
					r1 := apply(kv, Mut{T: "put", K: keys[0], V: "after-recovery"})
					r2 := apply(kv, Mut{T: "app", K: keys[len(keys)-1], C: "after-recovery"})
					kv.Stop()
					kv2, err2 := aof.New(aof.Config{Logger: zap.NewNop(), HasnFn: chord.Hash, DataDir: dir, FlushInterval: time.Hour})
					if err2 != nil {
						res["second"] = map[string]any{"err": err2.Error()}
						return
					}
					sec := project(kv2, keys)
					sec["acks"] = []string{r1, r2}
					res["second"] = sec
					go kv2.Start()
					kv2.Stop()
					return
				}
				kv.Stop()
			})
			if p != "" {
				res = map[string]any{"err": "panic: " + p}
			}
			verifkit.Answer(i, res)
			i++
		}
		verifkit.Flush()
	}
}
