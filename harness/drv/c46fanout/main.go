//go:build verif

// Driver for Fanout.tla (C46): runs the real promise.All on seeded scenarios (0..16 tasks, seeded delays, values,
// errors, tasks that respect or ignore cancellation, cancellation before / during / after the tasks) and records
// the visible history of each run -- start(i), fin(i, result), cancel, return(values, errors, completion flags) --
// in one total order.  The histories are judged by TLC (Fanout.tla, Family = "obs").
//
//	c46fanout run <runs> [first]       seeded scenarios first..first+runs-1
//	c46fanout replay <index> <times>   the scenario with that index, several times
package main

import (
	"context"
	"fmt"
	"math/rand"
	"os"
	"runtime"
	"strconv"
	"sync"
	"sync/atomic"
	"time"

	"go.miragespace.co/specter/internal/verifkit"
	"go.miragespace.co/specter/util/promise"
)

type event struct {
	T  string `json:"t"`
	I  int    `json:"i"`
	Ok bool   `json:"ok"`
	V  int    `json:"v"`
	R  []int  `json:"R"`
	E  []int  `json:"E"`
	F  []bool `json:"F"`
}

type taskErr struct{ id int }

func (e *taskErr) Error() string { return fmt.Sprintf("task error %d", e.id) }

type taskPlan struct {
	Respect bool  `json:"respect"` // returns early (with an error) when the context is cancelled
	DelayUs int   `json:"delay_us"`
	CleanUs int   `json:"clean_us"` // time a cancelled task still needs before it returns
	Fail    bool  `json:"fail"`
	Value   int   `json:"value"`
	ErrID   int   `json:"err_id"`
	Both    bool  `json:"both"` // a failing task also returns a non-zero value
	CtxErr  int   `json:"ctx_err_id"`
}

type plan struct {
	Index     int        `json:"index"`
	N         int        `json:"n"`
	Tasks     []taskPlan `json:"tasks"`
	Cancel    string     `json:"cancel"` // none | before | at | late
	CancelUs  int        `json:"cancel_us"`
	Procs     int        `json:"procs"`
	SlowScale int        `json:"slow_scale"`
}

func mkPlan(seed int64, index int) plan {
	r := rand.New(rand.NewSource(seed*1000003 + int64(index)*7919))
	p := plan{Index: index}
	p.N = index % 17 // every task count 0..16 in turn
	if r.Intn(8) == 0 {
		p.N = r.Intn(17)
	}
	p.SlowScale = 1
	if r.Intn(8) == 0 {
		p.SlowScale = 12 // a few runs with tasks that take tens of milliseconds
	}
	maxD := 3000 * p.SlowScale
	for i := 0; i < p.N; i++ {
		t := taskPlan{
			Respect: r.Intn(2) == 0,
			DelayUs: r.Intn(maxD),
			CleanUs: r.Intn(maxD),
			Fail:    r.Intn(3) == 0,
			Value:   1 + r.Intn(1000000),
			ErrID:   1000001 + i,
			Both:    r.Intn(2) == 0,
			CtxErr:  2000001 + i,
		}
		switch r.Intn(6) {
		case 0:
			t.DelayUs = 0
		case 1:
			t.CleanUs = 0
		}
		p.Tasks = append(p.Tasks, t)
	}
	switch r.Intn(5) {
	case 0:
		p.Cancel = "none"
	case 1:
		p.Cancel = "before"
	case 2:
		p.Cancel = "late"
		p.CancelUs = maxD * 3
	default:
		p.Cancel = "at"
		p.CancelUs = r.Intn(maxD)
		if r.Intn(3) == 0 {
			p.CancelUs = r.Intn(200)
		}
	}
	p.Procs = []int{0, 1, 2, 4}[r.Intn(4)]
	if index%97 == 5 && p.N > 0 { // a few runs in which one cancelled task needs most of a second (or more) to wind down
		p.Cancel, p.CancelUs = "at", 2000
		k := r.Intn(p.N)
		p.Tasks[k].Respect = true
		p.Tasks[k].DelayUs = 50000
		p.Tasks[k].CleanUs = []int{700000, 1300000}[r.Intn(2)]
		p.SlowScale = 200 // the stragglers of a premature return must still show up in the history
	}
	return p
}

func sleepUs(us int) {
	if us <= 0 {
		return
	}
	if us < 50 {
		runtime.Gosched()
		return
	}
	time.Sleep(time.Duration(us) * time.Microsecond)
}

func runPlan(p plan) []event {
	if p.Procs > 0 {
		defer runtime.GOMAXPROCS(runtime.GOMAXPROCS(p.Procs))
	}
	var (
		mu  sync.Mutex
		evs []event
	)
	logEv := func(e event) {
		if e.R == nil {
			e.R = []int{}
		}
		if e.E == nil {
			e.E = []int{}
		}
		if e.F == nil {
			e.F = []bool{}
		}
		mu.Lock()
		evs = append(evs, e)
		mu.Unlock()
	}
	flags := make([]atomic.Bool, p.N)
	ctx, cancel := context.WithCancel(context.Background())
	defer cancel()
	var cancelOnce sync.Once
	doCancel := func() {
		cancelOnce.Do(func() {
			logEv(event{T: "cancel"}) // logged before the effect: everything the cancellation causes follows it
			cancel()
		})
	}
	fns := make([]func(context.Context) (int, error), p.N)
	for i := range fns {
		i, t := i, p.Tasks[i]
		fns[i] = func(fctx context.Context) (v int, err error) {
			logEv(event{T: "start", I: i + 1})
			finish := func(ok bool, val int) {
				// the very last thing a task does: set its completion flag and log its result
				flags[i].Store(true)
				logEv(event{T: "fin", I: i + 1, Ok: ok, V: val})
			}
			cancelled := false
			if t.Respect {
				tm := time.NewTimer(time.Duration(t.DelayUs) * time.Microsecond)
				select {
				case <-fctx.Done():
					cancelled = true
					tm.Stop()
				case <-tm.C:
				}
			} else {
				sleepUs(t.DelayUs)
			}
			if cancelled {
				sleepUs(t.CleanUs) // a cancelled task still needs some time to wind down
				finish(false, t.CtxErr)
				if t.Both {
					return t.Value, &taskErr{t.CtxErr}
				}
				return 0, &taskErr{t.CtxErr}
			}
			if t.Fail {
				finish(false, t.ErrID)
				if t.Both {
					return t.Value, &taskErr{t.ErrID}
				}
				return 0, &taskErr{t.ErrID}
			}
			finish(true, t.Value)
			return t.Value, nil
		}
	}
	switch p.Cancel {
	case "before":
		doCancel()
	case "at", "late":
		tm := time.AfterFunc(time.Duration(p.CancelUs)*time.Microsecond, doCancel)
		defer tm.Stop()
	}

	// All must return once every task has finished: it is called in a goroutine of its own and given up after a while (the history then
	// ends with "noreturn" instead of "return")
	type allRes struct {
		r []int
		e []error
	}
	ch := make(chan allRes, 1)
	go func() {
		r, e := promise.All(ctx, fns...)
		ch <- allRes{r, e}
	}()
	var results []int
	var errs []error
	select {
	case x := <-ch:
		results, errs = x.r, x.e
	case <-time.After(4*time.Second + time.Duration(16000*p.SlowScale)*time.Microsecond):
		logEv(event{T: "noreturn"})
		mu.Lock()
		out := append([]event{}, evs...)
		mu.Unlock()
		return out
	}

	// sample the completion flags and copy the returned slices at the moment All returned
	f := make([]bool, p.N)
	for i := range f {
		f[i] = flags[i].Load()
	}
	rcopy := make([]int, len(results))
	copy(rcopy, results)
	ecopy := make([]int, len(errs))
	for i, e := range errs {
		switch te := e.(type) {
		case nil:
			ecopy[i] = 0
		case *taskErr:
			ecopy[i] = te.id
		default:
			ecopy[i] = -1
		}
	}
	logEv(event{T: "return", R: rcopy, E: ecopy, F: f})

	// give stragglers (tasks still running after a premature return) the time to show up in the history
	deadline := time.Now().Add(time.Duration(8000*p.SlowScale) * time.Microsecond)
	for time.Now().Before(deadline) {
		all := true
		for i := range flags {
			if !flags[i].Load() {
				all = false
			}
		}
		if all {
			break
		}
		time.Sleep(200 * time.Microsecond)
	}
	time.Sleep(50 * time.Microsecond)
	mu.Lock()
	out := append([]event{}, evs...)
	mu.Unlock()
	return out
}

func main() {
	seed := verifkit.Seed()
	mode := os.Args[1]
	a, _ := strconv.Atoi(os.Args[2])
	b := 0
	if len(os.Args) > 3 {
		b, _ = strconv.Atoi(os.Args[3])
	}
	emit := func(p plan) {
		evs := runPlan(p)
		verifkit.Emit(map[string]any{"n": p.N, "ev": evs, "plan": p})
	}
	switch mode {
	case "run":
		for k := 0; k < a; k++ {
			emit(mkPlan(seed, b+k))
		}
	case "replay":
		for k := 0; k < b; k++ {
			emit(mkPlan(seed, a))
		}
	}
	verifkit.Flush()
}
