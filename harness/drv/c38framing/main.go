//go:build verif

// Driver for Framing.tla (C38): every TLC-enumerated stream layout is built with the real rpc.Send from real
// protocol messages of every framed type (Stream, Connection, TunnelStatus, TunnelRoute, Link), cut / extended
// as the layout says, and read back with rpc.Receive / rpc.BoundedReceive through an instrumented reader that
// hands out the bytes in seeded chunk sizes and counts what was consumed.  The message handed to the receiver
// is wrapped so that calls of UnmarshalVT ("decoding") are counted.
package main

import (
	"bytes"
	"encoding/json"
	"hash/fnv"
	"io"
	"math"
	"math/rand"
	"os"
	"strconv"

	"go.miragespace.co/specter/internal/verifkit"
	"go.miragespace.co/specter/spec/protocol"
	"go.miragespace.co/specter/spec/rpc"

	"google.golang.org/protobuf/proto"
)

type msg interface {
	rpc.VTMarshaler
	proto.Message
}

var typeNames = []string{"Stream", "Connection", "TunnelStatus", "TunnelRoute", "Link"}

const letters = "abcdefghijklmnopqrstuvwxyz0123456789.-:/ \x00\xffé"

func rstr(r *rand.Rand, n int) string {
	b := make([]byte, n)
	for i := range b {
		b[i] = letters[r.Intn(len(letters))]
	}
	return string(bytes.ToValidUTF8(b, []byte("?")))
}

func rnode(r *rand.Rand, big int) *protocol.Node {
	if r.Intn(5) == 0 {
		return nil
	}
	return &protocol.Node{Id: r.Uint64() >> uint(r.Intn(64)), Address: rstr(r, r.Intn(20+big)), Unknown: r.Intn(3) == 0, Rendezvous: r.Intn(3) == 0}
}

// fresh returns an empty message of type t.
func fresh(t int) msg {
	switch t {
	case 0:
		return &protocol.Stream{}
	case 1:
		return &protocol.Connection{}
	case 2:
		return &protocol.TunnelStatus{}
	case 3:
		return &protocol.TunnelRoute{}
	default:
		return &protocol.Link{}
	}
}

// gen returns a seeded message of type t in size class sz: "z" empty (0 bytes), "s" small, "l" large.
func gen(r *rand.Rand, t int, sz string) msg {
	if sz == "z" {
		return fresh(t)
	}
	big := 0
	if sz == "l" {
		big = 200 + r.Intn(4000)
		if r.Intn(40) == 0 {
			big = 66000 + r.Intn(5000) // needs three bytes of the length prefix
		}
	}
	for {
		var m msg
		switch t {
		case 0:
			m = &protocol.Stream{Type: protocol.Stream_Type(r.Intn(5)), Target: rnode(r, big)}
		case 1:
			m = &protocol.Connection{Identity: rnode(r, 0), CacheState: protocol.Connection_State(r.Intn(3)),
				CacheDirection: protocol.Connection_Direction(r.Intn(3)), Version: rstr(r, r.Intn(12)+big)}
		case 2:
			m = &protocol.TunnelStatus{Status: protocol.TunnelStatusCode(r.Intn(3)), Error: rstr(r, r.Intn(30)+big)}
		case 3:
			m = &protocol.TunnelRoute{ClientDestination: rnode(r, 0), ChordDestination: rnode(r, 0), TunnelDestination: rnode(r, 0),
				Hostname: rstr(r, r.Intn(30)+big)}
		default:
			m = &protocol.Link{Alpn: protocol.Link_ALPN([]int{0, 1, 2, 9, 10, 11}[r.Intn(6)]), Hostname: rstr(r, r.Intn(30)+big), Remote: rstr(r, r.Intn(24))}
		}
		n := m.SizeVT()
		if (sz == "s" && n >= 1 && n < 200) || (sz == "l" && n >= 200) {
			return m
		}
	}
}

// spy counts decoding attempts.
type spy struct {
	inner   msg
	decodes int
	decLen  int
}

func (s *spy) MarshalToSizedBufferVT(b []byte) (int, error) { return s.inner.MarshalToSizedBufferVT(b) }
func (s *spy) MarshalVT() ([]byte, error)                   { return s.inner.MarshalVT() }
func (s *spy) SizeVT() int                                  { return s.inner.SizeVT() }
func (s *spy) UnmarshalVT(b []byte) error {
	s.decodes++
	s.decLen = len(b)
	return s.inner.UnmarshalVT(b)
}

// sink records what Send writes.
type sink struct {
	buf    bytes.Buffer
	writes int
}

func (s *sink) Write(p []byte) (int, error) { s.writes++; return s.buf.Write(p) }

// source hands out the stream in chunks and counts consumption.
type source struct {
	data  []byte
	pos   int
	chunk func() int
	reads int
}

func (s *source) Read(p []byte) (int, error) {
	s.reads++
	if len(p) == 0 {
		return 0, nil
	}
	if s.pos >= len(s.data) {
		return 0, io.EOF
	}
	n := len(p)
	if c := s.chunk(); c < n {
		n = c
	}
	if rem := len(s.data) - s.pos; rem < n {
		n = rem
	}
	copy(p, s.data[s.pos:s.pos+n])
	s.pos += n
	return n, nil
}

func keyOf(raw []byte) int64 {
	h := fnv.New32a()
	h.Write(raw)
	return int64(h.Sum32())
}

type readObs struct {
	Err     bool   `json:"err"`
	Text    string `json:"text,omitempty"`
	Pos     int    `json:"pos"`     // bytes of the stream consumed after this read
	Decodes int    `json:"decodes"` // UnmarshalVT calls during this read
	Equal   bool   `json:"equal"`   // received message equals the sent one
	Bound   int64  `json:"bound"`   // -1: Receive
}

type repObs struct {
	Types   []string  `json:"types"`
	Starts  []int     `json:"starts"` // offset of frame j in the full stream
	Sizes   []int     `json:"sizes"`  // SizeVT of message j
	Ends    []int     `json:"ends"`   // offset just behind frame j as written by Send
	Len     int       `json:"len"`    // length of the stream given to the reader
	Tail    int       `json:"tail"`
	Chunk   string    `json:"chunk"`
	SendErr string    `json:"senderr,omitempty"`
	Writes  []int     `json:"writes"`
	Reads   []readObs `json:"reads"`
	TailOK  bool      `json:"tail_ok"` // the unread remainder is exactly the trailing bytes
}

func main() {
	reps := 5
	if len(os.Args) > 1 {
		reps, _ = strconv.Atoi(os.Args[1])
	}
	seed := verifkit.Seed()
	verifkit.EachCase(func(i int, raw json.RawMessage) {
		c := verifkit.Decode[struct {
			Frames []struct{ Sz, Bd string }
			Tail   int
			Trunc  string
		}](raw)
		caseKey := keyOf(raw) // seeded choices depend on the case itself, not on its position: a replayed case repeats them
		rot := int(caseKey % 5)
		out := make([]repObs, 0, reps)
		for k := 0; k < reps; k++ {
			r := rand.New(rand.NewSource(seed*1000003 + caseKey*131 + int64(k)))
			o := repObs{Reads: []readObs{}}
			// ---- write side
			w := &sink{}
			msgs := make([]msg, len(c.Frames))
			for j, f := range c.Frames {
				t := (k + j*2 + rot) % 5 // every type in every position over 5 consecutive reps
				m := gen(r, t, f.Sz)
				msgs[j] = m
				o.Types = append(o.Types, typeNames[t])
				o.Starts = append(o.Starts, w.buf.Len())
				o.Sizes = append(o.Sizes, m.SizeVT())
				before := w.writes
				if err := rpc.Send(w, m); err != nil {
					o.SendErr = err.Error()
				}
				o.Writes = append(o.Writes, w.writes-before)
				o.Ends = append(o.Ends, w.buf.Len())
			}
			var tail []byte
			switch c.Tail {
			case 0:
			case 1:
				tail = []byte{byte(r.Intn(256))}
			default:
				tail = make([]byte, 2+r.Intn(80))
				r.Read(tail)
				if r.Intn(3) == 0 { // a tail that looks like the start of a small frame
					copy(tail, []byte{0, 0, 0, 1})
				}
			}
			o.Tail = len(tail)
			full := append(append([]byte{}, w.buf.Bytes()...), tail...)
			last := len(c.Frames) - 1
			st, n := o.Starts[last], o.Sizes[last]
			hdr := o.Ends[last] - st - n // length of the prefix as written by Send
			cut := len(full)
			switch c.Trunc {
			case "h0":
				cut = st
			case "h1":
				cut = st + 1
			case "h3":
				cut = st + hdr - 1
			case "p0":
				cut = st + hdr
			case "pmid":
				cut = st + hdr + 1 + r.Intn(n-2)
			case "pm1":
				cut = st + hdr + n - 1
			}
			stream := full[:cut]
			o.Len = len(stream)
			// ---- read side
			src := &source{data: stream}
			switch k % 4 {
			case 0:
				o.Chunk = "whole"
				src.chunk = func() int { return math.MaxInt32 }
			case 1:
				o.Chunk = "1"
				src.chunk = func() int { return 1 }
			case 2:
				o.Chunk = "1..7"
				src.chunk = func() int { return 1 + r.Intn(7) }
			default:
				o.Chunk = "1..4096"
				src.chunk = func() int { return 1 + r.Intn(4096) }
			}
			for j, f := range c.Frames {
				s := &spy{inner: fresh((k + j*2 + rot) % 5)}
				size := int64(o.Sizes[j])
				var bound int64 = -1
				switch f.Bd {
				case "lt":
					bound = []int64{size - 1, 0, size / 2}[r.Intn(3)]
				case "eq":
					bound = size
				case "gt":
					bound = []int64{size + 1, 2*size + 7, math.MaxUint32}[r.Intn(3)]
				}
				var err error
				p := verifkit.Recover(func() {
					if bound < 0 {
						err = rpc.Receive(src, s)
					} else {
						err = rpc.BoundedReceive(src, s, uint32(bound))
					}
				})
				ro := readObs{Pos: src.pos, Decodes: s.decodes, Bound: bound}
				if p != "" {
					ro.Err, ro.Text = true, "panic: "+p
				} else if err != nil {
					ro.Err, ro.Text = true, err.Error()
				} else {
					ro.Equal = proto.Equal(msgs[j], s.inner)
				}
				o.Reads = append(o.Reads, ro)
				if ro.Err {
					break
				}
			}
			rest := stream[src.pos:]
			o.TailOK = bytes.Equal(rest, tail)
			out = append(out, o)
		}
		verifkit.Answer(i, out)
	})
}
