//go:build verif

package main

import (
	"errors"
	"io"
	"math/rand"
	"net"
	"strings"
	"sync/atomic"
	"time"

	"go.miragespace.co/specter/internal/verifkit"
	"go.miragespace.co/specter/util/bufconn"
)

// Goroutine ids in the log: 1 = writer of direction 1 (on conn A), 2 = reader of direction 1 (on conn B),
// 3 = writer of direction 2 (on B), 4 = reader of direction 2 (on A), 5 = controller/closer, 6 = prober.

type dirPlan struct {
	active     bool
	chunks     []int
	wyield     []int
	closeAfter bool // the writer closes its conn after its last write
	wdlMs      int  // > 0: a write deadline of that many ms is set before the first write
	wgateAt    int  // chunk index at which the writer waits until the reader has timed out / finished; -1
	rsizes     []int
	ryield     []int
	maxReads   int
	rcloseAt   int  // the reader closes its own conn after this many successful reads; -1
	rdlMs      int  // > 0: a read deadline of that many ms is set before the first read
	rgated     bool // the reader starts only after the writer has timed out / finished
	stopAt     int  // >= 0: the reader stops (without closing) once it has received this many bytes
}

type ctlStep struct {
	afterTicks int64
	what       string // closeA | closeB
}

type bufScn struct {
	id, run int
	fam     string
	cap     int
	plans   [2]dirPlan
	ctl     []ctlStep
	rec     *recorder
	crew    *crew
	a, b    net.Conn
	wgate   [2]*gate
	rgate   [2]*gate
	staged  bool // staleTimer: both the clearing call and the timer function were seen parked at the mutex
}

func classify(err error) string {
	if err == nil {
		return "ok"
	}
	if errors.Is(err, io.EOF) {
		return "eof"
	}
	if errors.Is(err, io.ErrClosedPipe) {
		return "closed"
	}
	var ne net.Error
	if errors.As(err, &ne) && ne.Timeout() {
		return "timeout"
	}
	return "other"
}

func (s *bufScn) call(g int, k string, dir int, n int, d []byte, fn func() (int, []byte, error)) string {
	s.rec.add(event{T: "inv", G: g, K: k, Dir: dir, N: n, D: ints(d)})
	var rn int
	var rd []byte
	var err error
	pan := verifkit.Recover(func() { rn, rd, err = fn() })
	e := classify(err)
	if pan != "" {
		e = "panic"
	}
	s.rec.add(event{T: "ret", G: g, K: k, Dir: dir, N: rn, D: ints(rd), E: e})
	return e
}

func (s *bufScn) wconn(dir int) net.Conn {
	if dir == 1 {
		return s.a
	}
	return s.b
}
func (s *bufScn) rconn(dir int) net.Conn {
	if dir == 1 {
		return s.b
	}
	return s.a
}
func (s *bufScn) closeKind(c net.Conn) string {
	if c == s.a {
		return "closeA"
	}
	return "closeB"
}

func (s *bufScn) doClose(g int, c net.Conn) string {
	return s.call(g, s.closeKind(c), 0, 0, nil, func() (int, []byte, error) { return 0, nil, c.Close() })
}
func (s *bufScn) doWrite(g, dir int, c net.Conn, data []byte) string {
	return s.call(g, "write", dir, len(data), data, func() (int, []byte, error) {
		n, err := c.Write(data)
		return n, nil, err
	})
}
func (s *bufScn) doRead(g, dir int, c net.Conn, n int) string {
	return s.call(g, "read", dir, n, nil, func() (int, []byte, error) {
		buf := make([]byte, n)
		m, err := c.Read(buf)
		if m < 0 || m > n {
			return m, nil, errors.New("read count out of range")
		}
		return m, buf[:m], err
	})
}
func (s *bufScn) doDeadline(g, dir int, kind string, c net.Conn, ms int) {
	var t time.Time
	switch {
	case ms > 0:
		t = time.Now().Add(time.Duration(ms) * time.Millisecond)
	case ms == -1: // a deadline that has long passed (the idiom to abort a call that is in progress)
		t = time.Unix(1, 0)
	case ms == -2:
		t = time.Now()
	}
	s.call(g, kind, dir, ms, nil, func() (int, []byte, error) {
		if kind == "setRD" || kind == "clrRD" {
			return 0, nil, c.SetReadDeadline(t)
		}
		return 0, nil, c.SetWriteDeadline(t)
	})
}

// byte at stream position i of direction dir: positions are distinguishable (fewer than 251 bytes per stream)
func streamByte(dir, i int) byte { return byte((i+(dir-1)*97)%251 + 1) }

func (s *bufScn) writer(dir int) {
	p := &s.plans[dir-1]
	g := 2*dir - 1
	c := s.wconn(dir)
	defer func() {
		s.rgate[dir-1].open()
		if p.closeAfter {
			s.doClose(g, c)
		}
	}()
	pos := 0
	for i, n := range p.chunks {
		if i == p.wgateAt {
			s.wgate[dir-1].wait()
		}
		perturb(p.wyield[i])
		if i == 0 && p.wdlMs > 0 {
			s.doDeadline(g, dir, "setWD", c, p.wdlMs)
		}
		data := make([]byte, n)
		for j := range data {
			data[j] = streamByte(dir, pos+j)
		}
		pos += n
		e := s.doWrite(g, dir, c, data)
		if e == "timeout" {
			s.doDeadline(g, dir, "clrWD", c, 0)
			s.rgate[dir-1].open()
			continue
		}
		if e != "ok" {
			return
		}
	}
}

func (s *bufScn) reader(dir int) {
	p := &s.plans[dir-1]
	g := 2 * dir
	c := s.rconn(dir)
	defer s.wgate[dir-1].open()
	if p.rgated {
		s.rgate[dir-1].wait()
	}
	okReads, got := 0, 0
	for i := 0; i < p.maxReads; i++ {
		if p.stopAt >= 0 && got >= p.stopAt {
			return
		}
		perturb(p.ryield[i%len(p.ryield)])
		if i == 0 && p.rdlMs > 0 {
			s.doDeadline(g, dir, "setRD", c, p.rdlMs)
		}
		e := s.doRead(g, dir, c, p.rsizes[i%len(p.rsizes)])
		if e == "timeout" {
			s.doDeadline(g, dir, "clrRD", c, 0)
			s.wgate[dir-1].open()
			continue
		}
		if e != "ok" {
			return
		}
		okReads++
		got += s.rec.lastNOf(g)
		if okReads == p.rcloseAt {
			s.doClose(g, c)
			s.doRead(g, dir, c, 1) // a read on the closed end
			return
		}
	}
	s.doClose(g, c) // out of reads: do not leave the writer blocked on a full pipe
}

func (s *bufScn) controller() {
	for _, st := range s.ctl {
		lim := time.Now().Add(5 * time.Millisecond)
		for s.rec.ticks.Load() < st.afterTicks && time.Now().Before(lim) {
			time.Sleep(10 * time.Microsecond)
		}
		if st.what == "closeA" {
			s.doClose(5, s.a)
		} else {
			s.doClose(5, s.b)
		}
	}
}

// walk: one goroutine, only calls that cannot block (it tracks how many bytes are in flight)
func (s *bufScn) walk(r *rand.Rand) {
	fill, pos := 0, 0
	for i := 0; i < 34; i++ {
		if fill < s.cap && (fill == 0 || r.Intn(2) == 0) {
			n := 1 + r.Intn(s.cap-fill)
			data := make([]byte, n)
			for j := range data {
				data[j] = streamByte(1, pos+j)
			}
			pos += n
			if s.doWrite(1, 1, s.a, data) != "ok" {
				return
			}
			fill += n
		} else {
			if s.doRead(1, 1, s.b, 1+r.Intn(s.cap+1)) != "ok" {
				return
			}
			got := s.rec.lastN()
			if got <= 0 || got > fill {
				return // nonsense; the history shows it
			}
			fill -= got
		}
	}
	s.doClose(1, s.a)
	for i := 0; i < s.cap+2; i++ {
		if s.doRead(1, 1, s.b, 1+r.Intn(s.cap+1)) != "ok" {
			return
		}
	}
}

// mutexWaiters counts the goroutines started since the scenario began that are parked in sync.Mutex.Lock.
func (s *bufScn) mutexWaiters() int {
	n := 0
	for id, st := range goroutineStates() {
		if !s.crew.baseline[id] && strings.HasPrefix(st, "[sync.Mutex.Lock") {
			n++
		}
	}
	return n
}

func waitFor(cond func() bool, limit time.Duration) bool {
	for t0 := time.Now(); time.Since(t0) < limit; time.Sleep(500 * time.Microsecond) {
		if cond() {
			return true
		}
	}
	return false
}

// staleTimer: directed schedule for the lead of MC_BufPipe_race.cfg.  While some critical section of the pipe is
// in progress (the driver holds the pipe mutex the way a preempted Read/Write would), SetReadDeadline(zero) queues
// at the mutex, then the deadline timer fires and its function queues behind it.  When the mutex is released the
// deadline is cleared first (Stop cannot cancel the fired timer), then the timer function marks the pipe timed out.
// Afterwards a Read on the empty pipe, with no deadline set, is recorded.
func (s *bufScn) staleTimer() {
	c := s.rconn(1)
	s.doDeadline(2, 1, "setRD", c, 20)
	unlock := bufconn.VerifLockReadPipe(c)
	cleared := newGate()
	s.crew.spawn(func() { s.doDeadline(5, 1, "clrRD", c, 0); cleared.open() })
	okA := waitFor(func() bool { return s.mutexWaiters() >= 1 }, 5*time.Second)        // the clearing call is parked at the mutex
	okB := okA && waitFor(func() bool { return s.mutexWaiters() >= 2 }, 5*time.Second) // ... and now the timer function too
	unlock()
	s.staged = okA && okB
	cleared.wait()
	time.Sleep(2 * time.Millisecond) // let the timer function (not a logged call) finish
	rdone := newGate()
	var rgid atomic.Int64
	s.crew.spawn(func() { rgid.Store(curGID()); s.doRead(2, 1, c, 1); rdone.open() })
	// write one byte only after the Read has returned or is parked waiting for data
	waitFor(func() bool {
		select {
		case <-rdone.ch:
			return true
		default:
		}
		st := goroutineStates()[rgid.Load()]
		return strings.HasPrefix(st, "[sync.Cond.Wait") || strings.HasPrefix(st, "[chan") || strings.HasPrefix(st, "[select")
	}, 5*time.Second)
	s.doWrite(1, 1, s.wconn(1), []byte{streamByte(1, 0)})
	rdone.wait()
}

// pastDeadline: a call is already waiting (a Read on the empty pipe / a Write on the full pipe, seen parked) when a deadline that has
// passed is set on its end: the deadline must unblock it with a timeout
func (s *bufScn) pastDeadline(variant int) {
	parked := func(gid *atomic.Int64, done *gate) {
		waitFor(func() bool {
			select {
			case <-done.ch:
				return true
			default:
			}
			return strings.HasPrefix(goroutineStates()[gid.Load()], "[sync.Cond.Wait")
		}, 5*time.Second)
	}
	ms := -1 - variant%2
	done := newGate()
	var gid atomic.Int64
	if variant < 2 {
		c := s.rconn(1)
		s.crew.spawn(func() { gid.Store(curGID()); s.doRead(2, 1, c, 1); done.open() })
		parked(&gid, done)
		s.doDeadline(5, 1, "setRD", c, ms)
		return
	}
	w := s.wconn(1)
	fill := make([]byte, s.cap)
	for i := range fill {
		fill[i] = streamByte(1, i)
	}
	s.doWrite(1, 1, w, fill) // fits exactly: returns
	s.crew.spawn(func() { gid.Store(curGID()); s.doWrite(2, 1, w, []byte{streamByte(1, s.cap)}); done.open() })
	parked(&gid, done)
	s.doDeadline(5, 1, "setWD", w, ms)
}

var capChoices = []int{1, 1, 1, 2, 2, 2, 3, 3, 3, 4, 4, 5, 6, 7, 8, 8, 9, 12, 16, 17, 31, 32, 33, 63, 64}

func genPlan(r *rand.Rand, cp int) dirPlan {
	p := dirPlan{active: true, wgateAt: -1, rcloseAt: -1, maxReads: 40, stopAt: -1}
	maxChunk := 2*cp + 2
	if maxChunk > 48 {
		maxChunk = 48
	}
	total := 0
	for i, n := 0, 1+r.Intn(9); i < n && total < 180; i++ {
		c := 1 + r.Intn(maxChunk)
		if r.Intn(4) == 0 {
			c = 1 + r.Intn(3)
		}
		p.chunks = append(p.chunks, c)
		total += c
	}
	if r.Intn(12) == 0 {
		p.chunks = nil // the writer closes without writing
	}
	ymax := 4
	if r.Intn(3) == 0 {
		ymax = 2 // a tight run: only Gosched
	}
	for range p.chunks {
		p.wyield = append(p.wyield, r.Intn(ymax))
	}
	for i, n := 0, 1+r.Intn(5); i < n; i++ {
		sz := 1 + r.Intn(cp+3)
		if total > 60 && r.Intn(2) == 0 {
			sz = 8 + r.Intn(cp+8)
		}
		p.rsizes = append(p.rsizes, sz)
	}
	if total > 60 { // keep histories short: larger reads for long streams
		for i := range p.rsizes {
			if p.rsizes[i] < total/20 {
				p.rsizes[i] = total/20 + r.Intn(cp+1)
			}
		}
	}
	for i, n := 0, 1+r.Intn(5); i < n; i++ {
		p.ryield = append(p.ryield, r.Intn(ymax))
	}
	p.closeAfter = true
	return p
}

func runBufScenario(id, run int) bool {
	r := verifkit.Rand(int64(1000003*id + 39))
	s := &bufScn{id: id, run: run, rec: &recorder{}, crew: newCrew()}
	s.cap = capChoices[r.Intn(len(capChoices))]
	for i := range s.wgate {
		s.wgate[i], s.rgate[i] = newGate(), newGate()
	}
	fams := []string{"walk", "stream", "stream", "duplex", "duplex", "rclose", "ctlclose", "rdeadline", "wdeadline", "idle"}
	s.fam = fams[id%len(fams)]
	if id%100 == 99 {
		s.fam = "staletimer"
	}
	if id%50 == 24 {
		s.fam = "pastdeadline"
	}
	switch s.fam {
	case "walk", "staletimer", "pastdeadline":
	case "stream":
		s.plans[0] = genPlan(r, s.cap)
	case "duplex":
		s.plans[0] = genPlan(r, s.cap)
		s.plans[1] = genPlan(r, s.cap)
		// the first conn.Close of an end also ends the other direction: let most runs finish both streams
		if r.Intn(3) > 0 {
			s.plans[0].closeAfter, s.plans[1].closeAfter = false, false
			s.plans[0].stopAt, s.plans[1].stopAt = sum(s.plans[0].chunks), sum(s.plans[1].chunks)
		}
	case "rclose":
		s.plans[0] = genPlan(r, s.cap)
		s.plans[0].rcloseAt = 1 + r.Intn(4)
	case "ctlclose":
		s.plans[0] = genPlan(r, s.cap)
		if r.Intn(2) == 0 {
			s.plans[1] = genPlan(r, s.cap)
		}
		n := 1 + r.Intn(2)
		for i := 0; i < n; i++ {
			w := "closeA"
			if r.Intn(2) == 0 {
				w = "closeB"
			}
			s.ctl = append(s.ctl, ctlStep{afterTicks: int64(r.Intn(30)), what: w})
		}
	case "rdeadline":
		p := genPlan(r, s.cap)
		p.rdlMs = 3 + r.Intn(20)
		if len(p.chunks) > 0 {
			p.wgateAt = r.Intn(len(p.chunks))
		}
		s.plans[0] = p
	case "wdeadline":
		p := genPlan(r, s.cap)
		p.wdlMs = 3 + r.Intn(20)
		p.rgated = true
		for len(p.chunks) < 2 || sum(p.chunks) <= s.cap { // something must block
			p.chunks = append(p.chunks, 1+r.Intn(s.cap+1))
			p.wyield = append(p.wyield, r.Intn(3))
		}
		s.plans[0] = p
	case "idle":
		p := genPlan(r, s.cap)
		if r.Intn(2) == 0 { // reader waits on an empty pipe, the writer closes late without writing
			p.chunks, p.wyield = nil, nil
			p.wgateAt = -1
			s.ctl = []ctlStep{{afterTicks: 3, what: "closeA"}}
			p.closeAfter = false
		} else { // the writer fills the pipe, nobody reads, then the reader's end closes
			p.chunks = []int{s.cap + 1 + r.Intn(4)}
			p.wyield = []int{0}
			p.maxReads = 0
			s.ctl = []ctlStep{{afterTicks: 3, what: "closeB"}}
		}
		s.plans[0] = p
	}
	s.a, s.b = bufconn.BufferedPipe(s.cap)

	if s.fam == "walk" {
		s.crew.spawn(func() { s.walk(r) })
	}
	if s.fam == "staletimer" {
		s.crew.spawn(s.staleTimer)
	}
	if s.fam == "pastdeadline" {
		s.crew.spawn(func() { s.pastDeadline(r.Intn(4)) })
	}
	for d := 1; d <= 2; d++ {
		if s.plans[d-1].active {
			d := d
			s.crew.spawn(func() { s.writer(d) })
			if s.plans[d-1].maxReads > 0 {
				s.crew.spawn(func() { s.reader(d) })
			}
		}
	}
	if len(s.ctl) > 0 {
		s.crew.spawn(s.controller)
	}
	ok := s.crew.settle(s.rec)
	s.rec.add(event{T: "check"})
	// tear down: close both ends, then nothing may be left blocked
	s.crew.spawn(func() { s.doClose(5, s.a); s.doClose(5, s.b) })
	ok = s.crew.settle(s.rec) && ok
	s.rec.add(event{T: "check"})
	// calls on closed ends must fail (and return)
	s.crew.spawn(func() {
		for d := 1; d <= 2; d++ {
			s.doRead(6, d, s.rconn(d), 1)
			s.doWrite(6, d, s.wconn(d), []byte{250})
		}
	})
	ok = s.crew.settle(s.rec) && ok
	s.rec.add(event{T: "check"})
	verifkit.Emit(map[string]any{"scn": id, "run": run, "fam": s.fam, "cap": s.cap, "progress": ok,
		"staged": s.staged,
		"dirs":   []bool{s.plans[0].active || s.fam == "walk" || s.fam == "staletimer" || s.fam == "pastdeadline", s.plans[1].active}, "events": s.rec.snapshot()})
	return ok
}

func sum(x []int) int {
	t := 0
	for _, v := range x {
		t += v
	}
	return t
}
