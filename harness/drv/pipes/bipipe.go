//go:build verif

package main

import (
	"errors"
	"fmt"
	"net"
	"io"
	"math/rand"
	"sync"
	"sync/atomic"
	"time"

	"go.miragespace.co/specter/internal/verifkit"
	"go.miragespace.co/specter/spec/tun"
	"go.miragespace.co/specter/util/bufconn"
)

// C40: tun.Pipe(side1, side2) over instrumented streams.  Event kinds are those of spec/BiPipeRules.tla; the field
// G of an event is the side.  Streams are either one end of a real bufconn pair whose other end is driven by an
// "application" (awrite / aread / aclose events), or scripted stubs (chunks, then eof / error / block until closed;
// optionally failing writes: abreak).

type biRun struct {
	rec   *recorder
	crew  *crew
	hooks []func(e event)
	mu    sync.Mutex
}

func (b *biRun) log(k string, side int, d []byte, e string) {
	ev := event{T: k, G: side, D: ints(d), E: e, N: len(d)}
	b.rec.add(ev)
	b.mu.Lock()
	hs := b.hooks
	b.mu.Unlock()
	for _, h := range hs {
		h(ev)
	}
}

func ioClass(err error) string {
	if err == nil {
		return "ok"
	}
	if errors.Is(err, io.EOF) {
		return "eof"
	}
	return "err"
}

// istream records what Pipe does to a stream
type istream struct {
	side  int
	inner io.ReadWriteCloser
	run   *biRun
}

func (s *istream) Read(p []byte) (int, error) {
	n, err := s.inner.Read(p)
	if n > 0 {
		s.run.log("read", s.side, p[:n], "ok")
	}
	if err != nil || n == 0 {
		s.run.log("read", s.side, nil, ioClass(err))
	}
	return n, err
}

func (s *istream) Write(p []byte) (int, error) {
	n, err := s.inner.Write(p)
	if n < 0 || n > len(p) {
		n = 0
	}
	if err == nil && n == len(p) {
		s.run.log("write", s.side, p[:n], "ok")
	} else {
		s.run.log("write", s.side, p[:n], "err")
	}
	return n, err
}

func (s *istream) Close() error {
	s.run.log("close", s.side, nil, "ok")
	return s.inner.Close()
}

// hcstream: a recorded stream that can also shut down its sending side (as *net.TCPConn, *net.UnixConn and *tls.Conn can).  The
// scripted far end takes no notice of the shutdown: it does not hang up in response, later Writes to the stream fail.
type hcstream struct {
	istream
}

func (s *hcstream) CloseWrite() error {
	st := s.inner.(*stub)
	st.mu.Lock()
	st.failWrite = 0
	st.mu.Unlock()
	return nil
}

// stub: a scripted stream
type stub struct {
	side      int
	run       *biRun
	mu        sync.Mutex
	chunks    [][]byte
	yields    []int
	end       string // eof | err | hang
	together  bool   // the last chunk is returned by the same Read as the terminating eof / error (as io.Reader allows)
	failWrite int    // the k-th Write (0-based) and all later ones fail; -1 never
	writes    int
	closed    chan struct{}
	once      sync.Once
	broke     bool
}

var errBoom = errors.New("stub: boom")

func (s *stub) Read(p []byte) (int, error) {
	select {
	case <-s.closed:
		return 0, io.ErrClosedPipe
	default:
	}
	s.mu.Lock()
	if len(s.chunks) > 0 {
		c := s.chunks[0]
		y := 0
		if len(s.yields) > 0 {
			y, s.yields = s.yields[0], s.yields[1:]
		}
		n := copy(p, c)
		if n < len(c) {
			s.chunks[0] = c[n:]
		} else {
			s.chunks = s.chunks[1:]
		}
		last := len(s.chunks) == 0
		end, together := s.end, s.together
		if last && together && (end == "eof" || end == "err") {
			s.end = "hang" // the ending has been delivered with the data; later Reads only see the stream closed
		}
		s.mu.Unlock()
		perturb(y)
		s.run.log("awrite", s.side, p[:n], "ok")
		if last && together && end == "eof" {
			s.run.log("aclose", s.side, nil, "eof")
			return n, io.EOF
		}
		if last && together && end == "err" {
			s.run.log("aclose", s.side, nil, "err")
			return n, errBoom
		}
		return n, nil
	}
	end := s.end
	s.mu.Unlock()
	switch end {
	case "eof":
		s.run.log("aclose", s.side, nil, "eof")
		return 0, io.EOF
	case "err":
		s.run.log("aclose", s.side, nil, "err")
		return 0, errBoom
	case "nclosed": // the transport reports the stream as closed (nobody called Close on this stub)
		s.run.log("aclose", s.side, nil, "err")
		return 0, fmt.Errorf("stub: read: %w", net.ErrClosed)
	case "pclosed":
		s.run.log("aclose", s.side, nil, "err")
		return 0, io.ErrClosedPipe
	}
	<-s.closed
	return 0, io.ErrClosedPipe
}

func (s *stub) Write(p []byte) (int, error) {
	select {
	case <-s.closed:
		return 0, io.ErrClosedPipe
	default:
	}
	s.mu.Lock()
	k := s.writes
	s.writes++
	fail := s.failWrite >= 0 && k >= s.failWrite
	first := fail && !s.broke
	if fail {
		s.broke = true
	}
	s.mu.Unlock()
	if fail {
		if first {
			s.run.log("abreak", s.side, nil, "err")
		}
		return 0, errBoom
	}
	return len(p), nil
}

func (s *stub) Close() error {
	s.once.Do(func() { close(s.closed) })
	return nil
}

func payload(side, n int) []byte {
	b := make([]byte, n)
	for i := range b {
		b[i] = byte((i+(side-1)*100)%251 + 1)
	}
	return b
}

func chunked(r *rand.Rand, data []byte, maxChunk int) [][]byte {
	var out [][]byte
	for len(data) > 0 {
		n := 1 + r.Intn(maxChunk)
		if n > len(data) {
			n = len(data)
		}
		out = append(out, data[:n])
		data = data[n:]
	}
	return out
}

// app drives the far end of a bufconn pair
type app struct {
	side     int
	conn     io.ReadWriteCloser
	run      *biRun
	chunks   [][]byte
	yields   []int
	patient  bool // close only after the reader saw the end
	needRead int  // > 0: close only after having received this many bytes (then the writes are done too)
	noClose  bool // never closes by itself
	wgate    *gate
	rgate    *gate
	sawEnd   *gate
	total    atomic.Int64  // bytes received so far
	progress chan struct{} // a token is present whenever total changed since the closer last looked
	cdelay   int
}

func (a *app) writer() {
	if a.wgate != nil {
		a.wgate.wait()
	}
	for i, c := range a.chunks {
		perturb(a.yields[i%len(a.yields)])
		n, err := a.conn.Write(c)
		if err != nil {
			// bufconn reports n = 0 for a failed write; the application does not know what went through
			return
		}
		a.run.log("awrite", a.side, c[:n], "ok")
	}
}

func (a *app) reader() {
	if a.rgate != nil {
		a.rgate.wait()
	}
	buf := make([]byte, 64)
	total := 0
	for {
		n, err := a.conn.Read(buf[:1+total%len(buf)])
		if n > 0 {
			a.run.log("aread", a.side, buf[:n], "ok")
			total += n
			a.total.Store(int64(total))
			select {
			case a.progress <- struct{}{}:
			default:
			}
		}
		if err != nil {
			a.run.log("aread", a.side, nil, ioClass(err))
			a.sawEnd.open()
			return
		}
	}
}

func runBiScenario(id, run int) bool {
	r := verifkit.Rand(int64(1000003*id + 40))
	b := &biRun{rec: &recorder{}, crew: newCrew()}
	fams := []string{"oneway", "duplex", "revloss", "impatient", "stubs", "stubs", "mixed", "oneway", "duplex", "stubs", "ownerclose", "stubs"}
	fam := fams[id%len(fams)]
	cp := capChoices[r.Intn(len(capChoices))]
	var s1, s2 io.ReadWriteCloser // what Pipe gets
	var apps []*app
	var cleanup []io.Closer
	meta := map[string]any{}
	mkApp := func(side int, n int) (*app, io.ReadWriteCloser) {
		far, near := bufconn.BufferedPipe(cp)
		a := &app{side: side, conn: far, run: b, chunks: chunked(r, payload(side, n), 1+r.Intn(cp+4)), sawEnd: newGate(),
			progress: make(chan struct{}, 1), cdelay: r.Intn(5)}
		for i := 0; i < 4; i++ {
			a.yields = append(a.yields, r.Intn(4))
		}
		cleanup = append(cleanup, far, near)
		return a, near
	}
	mkStub := func(side int, n int, end string, failWrite int) *stub {
		st := &stub{side: side, run: b, chunks: chunked(r, payload(side, n), 1+r.Intn(9)), end: end, failWrite: failWrite,
			closed: make(chan struct{})}
		for range st.chunks {
			st.yields = append(st.yields, r.Intn(4))
		}
		cleanup = append(cleanup, st)
		return st
	}
	first := 1 + r.Intn(2) // the side that finishes first
	switch fam {
	case "oneway": // one application writes and closes, the other only reads, then closes
		a1, n1 := mkApp(1, 0)
		a2, n2 := mkApp(2, 0)
		as := []*app{a1, a2}
		as[first-1].chunks = chunked(r, payload(first, r.Intn(60)), 1+r.Intn(cp+4))
		as[2-first].patient = true
		apps, s1, s2 = as, n1, n2
	case "duplex": // both write; `first` closes once it has received all of the other's bytes, the other is patient
		n := [2]int{r.Intn(50), r.Intn(50)}
		a1, n1 := mkApp(1, n[0])
		a2, n2 := mkApp(2, n[1])
		as := []*app{a1, a2}
		as[first-1].needRead = n[2-first]
		as[2-first].patient = true
		apps, s1, s2 = as, n1, n2
	case "revloss": // directed: `first` writes 2*cap+1 bytes (they fit in flight: cap in each bufconn pipe plus at least one
		// byte in the copier's hand, so the writer finishes) and closes; only then the other side writes; it reads late
		if cp > 16 {
			cp = 1 + r.Intn(16)
		}
		a1, n1 := mkApp(1, 0)
		a2, n2 := mkApp(2, 0)
		as := []*app{a1, a2}
		f, o := as[first-1], as[2-first]
		f.chunks = chunked(r, payload(first, 2*cp+1), cp)
		o.chunks = [][]byte{payload(3-first, 1+r.Intn(2))}
		o.patient = true
		o.wgate, o.rgate = newGate(), newGate()
		b.hooks = append(b.hooks, func(e event) {
			if e.T == "aclose" && e.G == first {
				o.wgate.open()
			}
			if (e.T == "write" && e.G == first && e.E != "ok") || e.T == "done" {
				o.rgate.open()
			}
		})
		time.AfterFunc(300*time.Millisecond, o.rgate.open)
		apps, s1, s2 = as, n1, n2
	case "impatient": // both write and close on their own
		a1, n1 := mkApp(1, r.Intn(40))
		a2, n2 := mkApp(2, r.Intn(40))
		apps, s1, s2 = []*app{a1, a2}, n1, n2
	case "stubs":
		ends := []string{"eof", "err", "hang", "nclosed", "pclosed"}
		e1, e2 := ends[r.Intn(len(ends))], ends[r.Intn(len(ends))]
		f1, f2 := -1, -1
		if r.Intn(3) == 0 {
			f1 = r.Intn(4)
		}
		if r.Intn(3) == 0 {
			f2 = r.Intn(4)
		}
		if e1 == "hang" && e2 == "hang" { // something must end (a failing write may never be attempted)
			pick := []string{"eof", "err", "nclosed", "pclosed"}[r.Intn(4)]
			if r.Intn(2) == 0 {
				e1 = pick
			} else {
				e2 = pick
			}
		}
		st1, st2 := mkStub(1, r.Intn(40), e1, f1), mkStub(2, r.Intn(40), e2, f2)
		st1.together, st2.together = r.Intn(3) == 0, r.Intn(3) == 0
		s1, s2 = st1, st2
		meta["ends"] = []any{e1, e2, f1, f2}
		meta["halfclose"] = []any{r.Intn(2) == 0, r.Intn(2) == 0} // which of the streams also offer CloseWrite
	case "ownerclose": // the owner of stream `first` closes the very stream it handed to Pipe (session aborted); the far ends stay idle
		a1, n1 := mkApp(1, 0)
		a2, n2 := mkApp(2, 0)
		a1.noClose, a2.noClose = true, true
		as := []*app{a1, a2}
		if r.Intn(2) == 0 { // some bytes flow first
			as[2-first].chunks = chunked(r, payload(3-first, 1+r.Intn(20)), 1+r.Intn(cp+4))
		}
		apps, s1, s2 = as, n1, n2
		own := []io.ReadWriteCloser{n1, n2}[first-1]
		delay := r.Intn(4)
		time.AfterFunc(time.Duration(5+10*delay)*time.Millisecond, func() {
			b.log("aclose", first, nil, "err") // from now on Pipe's Read of that stream fails with a closed-pipe error
			own.Close()
		})
	case "mixed": // an application on side `first`, a stub sink on the other side
		a, n := mkApp(first, r.Intn(50))
		st := mkStub(3-first, r.Intn(20), "hang", -1)
		if r.Intn(3) == 0 {
			st.failWrite = r.Intn(3)
		}
		apps = []*app{a}
		if first == 1 {
			s1, s2 = n, st
		} else {
			s1, s2 = st, n
		}
	}
	meta["first"] = first
	var w1, w2 io.ReadWriteCloser = &istream{side: 1, inner: s1, run: b}, &istream{side: 2, inner: s2, run: b}
	if hc, ok := meta["halfclose"].([]any); ok {
		if hc[0].(bool) {
			w1 = &hcstream{istream{side: 1, inner: s1, run: b}}
		}
		if hc[1].(bool) {
			w2 = &hcstream{istream{side: 2, inner: s2, run: b}}
		}
	}
	ch := tun.Pipe(w1, w2)
	b.crew.spawn(func() {
		n := 0
		for range ch {
			n++
		}
		b.rec.add(event{T: "done", N: n, E: "ok"})
		b.mu.Lock()
		hs := b.hooks
		b.mu.Unlock()
		for _, h := range hs {
			h(event{T: "done"})
		}
	})
	for _, a := range apps {
		a := a
		wdone := newGate()
		b.crew.spawn(func() { a.writer(); wdone.open() })
		b.crew.spawn(a.reader)
		b.crew.spawn(func() { // the closer
			wdone.wait()
			if a.noClose {
				return
			}
			if a.patient {
				a.sawEnd.wait()
			}
			for ended := false; !ended && a.total.Load() < int64(a.needRead); {
				select {
				case <-a.progress:
				case <-a.sawEnd.ch:
					ended = true
				}
			}
			perturb(a.cdelay)
			b.log("aclose", a.side, nil, "eof")
			a.conn.Close()
		})
	}
	ok := b.crew.settle(b.rec)
	evs := b.rec.snapshot()
	for _, c := range cleanup { // release whatever is left; not part of the record
		c.Close()
	}
	verifkit.Emit(map[string]any{"scn": id, "run": run, "fam": fam, "cap": cp, "progress": ok, "meta": meta, "events": evs})
	return ok
}
