//go:build verif

// Driver for C39 (util/bufconn: BufPipe.tla / Trace_BufPipe.tla) and C40 (spec/tun.Pipe: BiPipe.tla).
//
//	pipes buf <from> <to> [repeat]      run the seeded bufconn scenarios from..to-1 (each `repeat` times), one
//	                                    ndjson line per scenario with the recorded call history
//	pipes bipipe <from> <to> [repeat]   run the seeded tun.Pipe scenarios, one line per run with its event log
//
// Nothing here judges: the histories are validated by TLC (checks/c39.py, checks/c40.py).
package main

import (
	"bytes"
	"fmt"
	"os"
	"runtime"
	"strconv"
	"strings"
	"sync"
	"sync/atomic"
	"time"

	"go.miragespace.co/specter/internal/verifkit"
)

// quiet is how long nothing at all must have happened (no call started or returned, every unfinished goroutine
// parked) before the driver declares "no progress"; it is far longer than any deadline or sleep the scenarios use
// (<= 40 ms).  hardLimit bounds the wait when a goroutine never parks (spinning).
const (
	quiet     = 2500 * time.Millisecond
	hardLimit = 20 * time.Second
	maxStuck  = 3 // stop generating scenarios after this many runs without progress (each costs `quiet`)
)

// ---------------------------------------------------------------------------------------------------------------
// one atomic event log per scenario; its order is the real-time order

type event struct {
	T   string `json:"t"`             // inv | ret | check | (C40) read write close done chanerr awrite aread aclose
	G   int    `json:"g"`             // goroutine (C39) / side (C40)
	K   string `json:"k,omitempty"`   // C39 call kind
	Dir int    `json:"dir,omitempty"` // C39: 1 = A->B, 2 = B->A
	N   int    `json:"n"`
	D   []int  `json:"d"`
	E   string `json:"e,omitempty"`
}

type recorder struct {
	mu     sync.Mutex
	events []event
	ticks  atomic.Int64
}

func (r *recorder) add(e event) {
	if e.D == nil {
		e.D = []int{}
	}
	r.mu.Lock()
	r.events = append(r.events, e)
	r.mu.Unlock()
	r.ticks.Add(1)
}

func (r *recorder) snapshot() []event {
	r.mu.Lock()
	defer r.mu.Unlock()
	return append([]event(nil), r.events...)
}

// lastN is the count returned by the most recently logged call (single-goroutine scenarios only).
func (r *recorder) lastN() int {
	r.mu.Lock()
	defer r.mu.Unlock()
	return r.events[len(r.events)-1].N
}

// lastNOf is the count returned by the most recent call of goroutine g.
func (r *recorder) lastNOf(g int) int {
	r.mu.Lock()
	defer r.mu.Unlock()
	for i := len(r.events) - 1; i >= 0; i-- {
		if r.events[i].G == g && r.events[i].T == "ret" {
			return r.events[i].N
		}
	}
	return 0
}

func ints(b []byte) []int {
	o := make([]int, len(b))
	for i, v := range b {
		o[i] = int(v)
	}
	return o
}

// ---------------------------------------------------------------------------------------------------------------
// goroutine bookkeeping: which of the scenario's goroutines are finished, and whether the others are parked

type crew struct {
	mu       sync.Mutex
	gids     map[int64]bool // runtime goroutine ids of unfinished members
	n        atomic.Int64   // unfinished members
	baseline map[int64]bool // goroutines that existed before the scenario (leftovers of earlier ones)
}

func newCrew() *crew {
	c := &crew{gids: map[int64]bool{}, baseline: map[int64]bool{}}
	for id := range goroutineStates() {
		c.baseline[id] = true
	}
	return c
}

// goroutineStates parses runtime.Stack(all): goroutine id -> "[state...]:" text
func goroutineStates() map[int64]string {
	out := map[int64]string{}
	buf := make([]byte, 1<<18)
	for {
		n := runtime.Stack(buf, true)
		if n < len(buf) {
			buf = buf[:n]
			break
		}
		buf = make([]byte, 2*len(buf))
	}
	for _, blk := range bytes.Split(buf, []byte("\n\n")) {
		line := string(bytes.SplitN(blk, []byte("\n"), 2)[0])
		if !strings.HasPrefix(line, "goroutine ") {
			continue
		}
		f := strings.SplitN(line[len("goroutine "):], " ", 2)
		id, err := strconv.ParseInt(f[0], 10, 64)
		if err != nil || len(f) < 2 {
			continue
		}
		out[id] = f[1]
	}
	return out
}

func curGID() int64 {
	var buf [64]byte
	n := runtime.Stack(buf[:], false)
	f := strings.Fields(string(buf[:n]))
	if len(f) >= 2 {
		id, _ := strconv.ParseInt(f[1], 10, 64)
		return id
	}
	return -1
}

func (c *crew) spawn(fn func()) {
	c.n.Add(1)
	go func() {
		id := curGID()
		c.mu.Lock()
		c.gids[id] = true
		c.mu.Unlock()
		defer func() {
			c.mu.Lock()
			delete(c.gids, id)
			c.mu.Unlock()
			c.n.Add(-1)
		}()
		fn()
	}()
}

// allParked reports whether every goroutine of this scenario (its members and whatever the code under test started)
// is parked: not running, runnable, sleeping or in a syscall.
func (c *crew) allParked() bool {
	self := curGID()
	for id, st := range goroutineStates() {
		if id == self || c.baseline[id] {
			continue
		}
		if strings.HasPrefix(st, "[running") || strings.HasPrefix(st, "[runnable") || strings.HasPrefix(st, "[sleep") ||
			strings.HasPrefix(st, "[syscall") {
			return false
		}
	}
	return true
}

// settle waits until every member finished (true) or nothing has happened for `quiet` with every member parked (false).
func (c *crew) settle(r *recorder) bool {
	start := time.Now()
	last := r.ticks.Load()
	lastChange := time.Now()
	for spin := 0; ; spin++ {
		if c.n.Load() == 0 {
			return true
		}
		if spin < 200 {
			runtime.Gosched()
			continue
		}
		time.Sleep(200 * time.Microsecond)
		if t := r.ticks.Load(); t != last {
			last, lastChange = t, time.Now()
			continue
		}
		if time.Since(lastChange) >= quiet && (c.allParked() || time.Since(start) >= hardLimit) {
			return false
		}
	}
}

func perturb(code int) {
	switch code {
	case 1:
		runtime.Gosched()
	case 2:
		time.Sleep(20 * time.Microsecond)
	case 3:
		time.Sleep(200 * time.Microsecond)
	case 4:
		time.Sleep(2 * time.Millisecond)
	}
}

type gate struct {
	ch   chan struct{}
	once sync.Once
}

func newGate() *gate  { return &gate{ch: make(chan struct{})} }
func (g *gate) open() { g.once.Do(func() { close(g.ch) }) }
func (g *gate) wait() { <-g.ch }

func main() {
	if len(os.Args) < 4 {
		fmt.Fprintln(os.Stderr, "usage: pipes buf|bipipe <from> <to> [repeat]")
		os.Exit(3)
	}
	from, _ := strconv.Atoi(os.Args[2])
	to, _ := strconv.Atoi(os.Args[3])
	rep := 1
	if len(os.Args) > 4 {
		rep, _ = strconv.Atoi(os.Args[4])
	}
	stuck := 0
	for id := from; id < to; id++ {
		for k := 0; k < rep; k++ {
			var ok bool
			switch os.Args[1] {
			case "buf":
				ok = runBufScenario(id, k)
			case "bipipe":
				ok = runBiScenario(id, k)
			default:
				fmt.Fprintln(os.Stderr, "unknown mode")
				os.Exit(3)
			}
			if !ok {
				stuck++
			}
			if stuck >= maxStuck {
				verifkit.Emit(map[string]any{"aborted": true, "after": id, "why": "too many runs without progress"})
				verifkit.Flush()
				os.Exit(0)
			}
		}
	}
	verifkit.Flush()
}
