//go:build verif

// Driver for spec/CertStore.tla (C49): real acme.ChordStorage instances sharing one store.
//
//	certstore files <node|memory> <ninst>   stdin: line 0 = {"paths":[..],"dirs":[..],"vals":{..}}, then one file
//	                                        operation per line (a walk over the state graph of the file store);
//	                                        every operation is answered with what the storage API returned
//	                                        and with the recursive listing of the whole store afterwards
//	certstore locks <node|memory> <workers> stdin: lock behaviours; each runs on its own store with the real
//	                                        clock; the answer is the list of timed events
package main

import (
	"context"
	"encoding/json"
	"errors"
	"fmt"
	"io/fs"
	"os"
	"sort"
	"strconv"
	"strings"
	"sync"
	"time"

	"go.miragespace.co/specter/acme"
	implchord "go.miragespace.co/specter/chord"
	"go.miragespace.co/specter/internal/verifkit"
	"go.miragespace.co/specter/kv/memory"
	"go.miragespace.co/specter/spec/chord"
	"go.miragespace.co/specter/spec/protocol"
	"go.miragespace.co/specter/spec/rpc"
	"go.miragespace.co/specter/spec/rtt"

	"go.uber.org/zap"
	"go.uber.org/zap/zapcore"
	"go.uber.org/zap/zaptest/observer"
)

type nopRTT struct{}

func (nopRTT) Snapshot(string, time.Duration) *rtt.Statistics { return &rtt.Statistics{} }
func (nopRTT) RecordLatency(string, float64)                  {}
func (nopRTT) RecordSent(string)                              {}
func (nopRTT) RecordLost(string)                              {}
func (nopRTT) Drop(string)                                    {}

type nopClient struct{ rpc.ChordClient }

// newKV returns the shared store: a real single-node DHT (chord.LocalNode over the in-memory provider) or the
// in-memory provider used directly as chord.KV.
func newKV(kind string) chord.KV {
	prov := memory.WithHashFn(chord.Hash)
	if kind == "memory" {
		return prov
	}
	n := implchord.NewLocalNode(implchord.NodeConfig{
		BaseLogger:               zap.NewNop(),
		ChordClient:              nopClient{},
		Identity:                 &protocol.Node{Id: chord.Hash([]byte("verif-certstore")), Address: "node-certstore"},
		KVProvider:               prov,
		StabilizeInterval:        time.Hour,
		FixFingerInterval:        time.Hour,
		PredecessorCheckInterval: time.Hour,
		NodesRTT:                 nopRTT{},
	})
	if err := n.Create(); err != nil {
		panic(err)
	}
	return n
}

func errClass(err error) string {
	switch {
	case err == nil:
		return ""
	case errors.Is(err, fs.ErrNotExist):
		return "notexist"
	}
	return err.Error()
}

// ---------------------------------------------------------------------------------------------- files

type Header struct {
	Paths [][]string        `json:"paths"`
	Dirs  [][]string        `json:"dirs"`
	Vals  map[string]string `json:"vals"`
	Locks bool              `json:"locks"` // locks are held (by one more instance) on names around the keys during the whole walk
}

type FileOp struct {
	K string `json:"k"`
	I int    `json:"i"`
	P int    `json:"p"`
	V int    `json:"v"`
	D int    `json:"d"`
}

func runFiles(kind string, ninst int) {
	kv := newKV(kind)
	var st []*acme.ChordStorage
	for i := 0; i < ninst; i++ {
		s, err := acme.NewChordStorage(zap.NewNop(), kv, acme.StorageConfig{RetryInterval: 100 * time.Millisecond, LeaseTTL: time.Second})
		if err != nil {
			panic(err)
		}
		st = append(st, s)
	}
	ctx := context.Background()
	var h Header
	verifkit.EachCase(func(i int, raw json.RawMessage) {
		if i == 0 {
			h = verifkit.Decode[Header](raw)
			if h.Locks { // another instance holds locks on every key name, every directory name and a name inside every directory
				locker, err := acme.NewChordStorage(zap.NewNop(), kv, acme.StorageConfig{RetryInterval: 100 * time.Millisecond, LeaseTTL: 10 * time.Minute})
				if err != nil {
					panic(err)
				}
				names := map[string]bool{}
				for _, p := range h.Paths {
					names[strings.Join(p, "/")] = true
				}
				for _, d := range h.Dirs {
					if len(d) > 0 {
						names[strings.Join(d, "/")] = true
						names[strings.Join(d, "/")+"/held.lock"] = true
					}
				}
				names["toplevel.lock"] = true
				for n := range names {
					if err := locker.Lock(ctx, n); err != nil {
						panic("lock " + n + ": " + err.Error())
					}
				}
			}
			verifkit.Answer(i, map[string]any{"header": true})
			return
		}
		op := verifkit.Decode[FileOp](raw)
		s := st[op.I-1]
		key := ""
		if op.P > 0 {
			key = strings.Join(h.Paths[op.P-1], "/")
		}
		r := map[string]any{}
		switch op.K {
		case "store":
			r["err"] = errClass(s.Store(ctx, key, []byte(h.Vals[strconv.Itoa(op.V)])))
		case "delete":
			r["err"] = errClass(s.Delete(ctx, key))
		case "load":
			v, err := s.Load(ctx, key)
			r["v"], r["err"] = string(v), errClass(err)
		case "exists":
			r["b"] = s.Exists(ctx, key)
		case "stat":
			info, err := s.Stat(ctx, key)
			r["err"], r["size"], r["terminal"], r["key"] = errClass(err), info.Size, info.IsTerminal, info.Key
		case "list":
			l, err := s.List(ctx, strings.Join(h.Dirs[op.D-1], "/"), false)
			if l == nil {
				l = []string{}
			}
			r["l"], r["err"] = l, errClass(err)
		default:
			r["err"] = "unknown op " + op.K
		}
		all, err := st[0].List(ctx, "", true)
		sort.Strings(all)
		if all == nil {
			all = []string{}
		}
		verifkit.Answer(i, map[string]any{"r": r, "all": all, "allerr": errClass(err)})
	})
}

// ---------------------------------------------------------------------------------------------- locks

type LockStep struct {
	A    string `json:"a"` // request | acquire | release | abandon | wait | renew | holdrenew | releaserenew
	I    int    `json:"i"`
	N    string `json:"n"`
	Busy bool   `json:"busy"`
	CC   bool   `json:"cc"` // request: the context of the Lock call ends when the call returns (a per-call timeout with a deferred cancel)
	Ms   int    `json:"ms"` // wait: the holders keep what they hold for that long
}

type LockBehaviour struct {
	Steps []LockStep `json:"steps"`
	TTLms int        `json:"ttlms"`
}

type Event struct {
	I    int    `json:"i"`
	N    string `json:"n"`
	Kind string `json:"kind"` // got | unlock | abandon
	T    int64  `json:"t"`    // microseconds since the start of the behaviour
	Exp  int64  `json:"exp,omitempty"`
	Err  string `json:"err,omitempty"`
}

type LockResult struct {
	Events      []Event  `json:"events"`
	End         int64    `json:"end"`
	RenewFailed []int    `json:"renew_failed"` // instances whose lease renewal failed (scheduling delay or lost lease)
	// when (microseconds since the start) the background renewal of an instance reported a failure
	RenewFailedAt [][2]int64 `json:"renew_failed_at"`
	Issues      []string `json:"issues,omitempty"`
}

// gateKV: the store of a lock behaviour; when armed, the next Renew that arrives is held (the renewal has read its token and is on its
// way to the ring) until released, or for at most 400 ms
type gateKV struct {
	chord.KV
	mu      sync.Mutex
	armed   bool
	parked  chan struct{}
	release chan struct{}
}

func (g *gateKV) Renew(ctx context.Context, lease []byte, ttl time.Duration, prev uint64) (uint64, error) {
	g.mu.Lock()
	hold := g.armed
	g.armed = false
	g.mu.Unlock()
	if hold {
		close(g.parked)
		select {
		case <-g.release:
		case <-time.After(400 * time.Millisecond):
		}
	}
	return g.KV.Renew(ctx, lease, ttl, prev)
}

func runLock(kind string, b LockBehaviour) *LockResult {
	res := &LockResult{}
	gkv := &gateKV{KV: newKV(kind), parked: make(chan struct{}), release: make(chan struct{})}
	var kv chord.KV = gkv
	ttl := time.Duration(b.TTLms) * time.Millisecond
	ninst := 0
	for _, s := range b.Steps {
		if s.I > ninst {
			ninst = s.I
		}
	}
	var st []*acme.ChordStorage
	var logs []*observer.ObservedLogs
	for i := 0; i < ninst; i++ {
		core, l := observer.New(zapcore.ErrorLevel)
		logs = append(logs, l)
		s, err := acme.NewChordStorage(zap.New(core), kv, acme.StorageConfig{RetryInterval: 100 * time.Millisecond, LeaseTTL: ttl})
		if err != nil {
			panic(err)
		}
		st = append(st, s)
	}
	start := time.Now()
	us := func(t time.Time) int64 { return t.Sub(start).Microseconds() }
	var mu sync.Mutex
	add := func(e Event) { mu.Lock(); res.Events = append(res.Events, e); mu.Unlock() }
	pending := map[string]chan struct{}{}
	key := func(i int, n string) string { return fmt.Sprintf("%d/%s", i, n) }
	ctx := context.Background()
	// a stored value under the same name as a lock: must stay untouched
	st[0].Store(ctx, "da", []byte("value-under-lock-name"))
	for si, s := range b.Steps {
		switch s.A {
		case "request":
			done := make(chan struct{})
			pending[key(s.I, s.N)] = done
			go func(i int, n string, cc bool) {
				cctx, cancel := context.WithCancel(ctx)
				err := st[i-1].Lock(cctx, n)
				add(Event{I: i, N: n, Kind: "got", T: us(time.Now()), Err: errClass(err)})
				if cc {
					cancel()
				}
				close(done)
				_ = cancel // otherwise the call's context lives as long as the process
			}(s.I, s.N, s.CC)
			if s.Busy {
				// somebody holds it: give the call more than one poll interval (LeaseTTL/2) to try, and a wrong
				// implementation time to succeed
				time.Sleep(ttl/2 + ttl/6)
			} else {
				// free or expired: the call returns as soon as the store grants the lease
				select {
				case <-done:
					delete(pending, key(s.I, s.N))
				case <-time.After(2*ttl + 3*time.Second):
					res.Issues = append(res.Issues, fmt.Sprintf("step %d: Lock(%d,%s) on a free lock did not return", si, s.I, s.N))
				}
			}
		case "acquire":
			done, ok := pending[key(s.I, s.N)]
			if !ok {
				res.Issues = append(res.Issues, fmt.Sprintf("step %d: no pending request", si))
				break
			}
			select {
			case <-done:
				delete(pending, key(s.I, s.N))
			case <-time.After(2*ttl + 3*time.Second):
				res.Issues = append(res.Issues, fmt.Sprintf("step %d: Lock(%d,%s) did not return", si, s.I, s.N))
			}
		case "wait":
			time.Sleep(time.Duration(s.Ms) * time.Millisecond)
		case "holdrenew": // the next renewal that reaches the store is held there; the step returns once one is held
			gkv.mu.Lock()
			gkv.armed = true
			gkv.mu.Unlock()
			select {
			case <-gkv.parked:
			case <-time.After(2*ttl + 3*time.Second):
				res.Issues = append(res.Issues, fmt.Sprintf("step %d: no renewal arrived at the store", si))
			}
		case "releaserenew":
			close(gkv.release)
			time.Sleep(30 * time.Millisecond) // the held renewal completes
		case "renew": // the holder renews its lease explicitly (certmagic calls RenewLockLease during long operations); the lock stays held
			t := time.Now()
			err := st[s.I-1].RenewLockLease(ctx, s.N, ttl)
			add(Event{I: s.I, N: s.N, Kind: "renewed", T: us(t), Err: errClass(err)})
		case "release":
			t := time.Now()
			err := st[s.I-1].Unlock(ctx, s.N)
			add(Event{I: s.I, N: s.N, Kind: "unlock", T: us(t), Err: errClass(err)})
		case "abandon":
			t := time.Now()
			tok, ok := st[s.I-1].VerifAbandon(s.N)
			e := Event{I: s.I, N: s.N, Kind: "abandon", T: us(t)}
			if !ok {
				e.Err = "not held"
			} else {
				e.Exp = time.Unix(0, int64(tok)).Sub(start).Microseconds()
			}
			add(e)
		}
		if len(res.Issues) > 0 {
			break
		}
	}
	// a moment for calls that should NOT return
	time.Sleep(100 * time.Millisecond)
	v, err := st[0].Load(ctx, "da")
	if err != nil || string(v) != "value-under-lock-name" {
		res.Issues = append(res.Issues, fmt.Sprintf("value stored under a lock name changed: %q %v", v, err))
	}
	mu.Lock()
	res.End = us(time.Now())
	res.Events = append([]Event(nil), res.Events...)
	mu.Unlock()
	for i, l := range logs {
		if l.FilterMessageSnippet("failed to renew lease").Len() > 0 {
			res.RenewFailed = append(res.RenewFailed, i+1)
			for _, e := range l.FilterMessageSnippet("failed to renew lease").All() {
				res.RenewFailedAt = append(res.RenewFailedAt, [2]int64{int64(i + 1), us(e.Time)})
			}
		}
	}
	return res
}

func main() {
	if len(os.Args) < 3 {
		fmt.Fprintln(os.Stderr, "usage: certstore files|locks node|memory [n]")
		os.Exit(2)
	}
	n := 2
	if len(os.Args) > 3 {
		n, _ = strconv.Atoi(os.Args[3])
	}
	switch os.Args[1] {
	case "files":
		runFiles(os.Args[2], n)
	case "locks":
		var raws []json.RawMessage
		verifkit.EachCase(func(i int, raw json.RawMessage) { raws = append(raws, raw) })
		var wg sync.WaitGroup
		ch := make(chan int)
		for w := 0; w < n; w++ {
			wg.Add(1)
			go func() {
				defer wg.Done()
				for i := range ch {
					verifkit.Answer(i, runLock(os.Args[2], verifkit.Decode[LockBehaviour](raws[i])))
				}
			}()
		}
		for i := range raws {
			ch <- i
		}
		close(ch)
		wg.Wait()
	default:
		fmt.Fprintln(os.Stderr, "unknown mode")
		os.Exit(2)
	}
	verifkit.Flush()
	os.Exit(0)
}
