//go:build verif

// Driver for Pki.tla (C32): every case of the renewal decision table and every issuance scenario is concretised with
// real ed25519 keys, x509 certificates and proofs of work and sent through the real pki.Server.
package main

import (
	"context"
	"crypto/ed25519"
	"crypto/rand"
	"crypto/sha256"
	"crypto/tls"
	"crypto/x509"
	"crypto/x509/pkix"
	"encoding/base64"
	"encoding/binary"
	"encoding/json"
	"errors"
	"fmt"
	"hash/fnv"
	"math/big"
	"math/bits"
	mrand "math/rand"
	"os"
	"strconv"
	"strings"
	"sync"
	"time"

	"go.miragespace.co/specter/internal/verifkit"
	implpki "go.miragespace.co/specter/pki"
	"go.miragespace.co/specter/spec/chord"
	"go.miragespace.co/specter/spec/pki"
	"go.miragespace.co/specter/spec/protocol"

	"github.com/twitchtv/twirp"
	"go.uber.org/zap"
)

// caseKey derives the random stream of a case from its content (not its position): a replayed case is concretised identically
func caseKey(c renewCase) int64 {
	h := fnv.New64a()
	fmt.Fprintf(h, "%s|%s|%s|%v|%v|%v", c.Fam, c.CA, c.Ver, c.Key, c.Proof, c.Keys)
	return int64(h.Sum64() >> 1)
}

func makeCA(cn string) tls.Certificate {
	ca := &x509.Certificate{
		SerialNumber:          big.NewInt(1234),
		Subject:               pkix.Name{CommonName: cn},
		NotBefore:             time.Now().Add(-time.Hour),
		NotAfter:              time.Now().AddDate(10, 0, 0),
		IsCA:                  true,
		ExtKeyUsage:           []x509.ExtKeyUsage{x509.ExtKeyUsageClientAuth, x509.ExtKeyUsageServerAuth},
		KeyUsage:              x509.KeyUsageDigitalSignature | x509.KeyUsageCertSign,
		BasicConstraintsValid: true,
	}
	pub, priv, err := ed25519.GenerateKey(rand.Reader)
	if err != nil {
		panic(err)
	}
	der, err := x509.CreateCertificate(rand.Reader, ca, ca, pub, priv)
	if err != nil {
		panic(err)
	}
	return tls.Certificate{Certificate: [][]byte{der}, PrivateKey: priv}
}

// makeIntermediate: a CA certificate issued by parent; the returned bundle carries the chain (own certificate first)
func makeIntermediate(cn string, parent tls.Certificate) tls.Certificate {
	pc, err := x509.ParseCertificate(parent.Certificate[0])
	if err != nil {
		panic(err)
	}
	tmpl := &x509.Certificate{
		SerialNumber:          big.NewInt(5678),
		Subject:               pkix.Name{CommonName: cn},
		NotBefore:             time.Now().Add(-time.Hour),
		NotAfter:              time.Now().AddDate(5, 0, 0),
		IsCA:                  true,
		ExtKeyUsage:           []x509.ExtKeyUsage{x509.ExtKeyUsageClientAuth, x509.ExtKeyUsageServerAuth},
		KeyUsage:              x509.KeyUsageDigitalSignature | x509.KeyUsageCertSign,
		BasicConstraintsValid: true,
	}
	pub, priv, err := ed25519.GenerateKey(rand.Reader)
	if err != nil {
		panic(err)
	}
	der, err := x509.CreateCertificate(rand.Reader, tmpl, pc, pub, parent.PrivateKey)
	if err != nil {
		panic(err)
	}
	return tls.Certificate{Certificate: [][]byte{der, parent.Certificate[0]}, PrivateKey: priv}
}

func keyHash(pub ed25519.PublicKey) []byte {
	h := sha256.Sum256(pub)
	return h[:]
}

func subjectOf(pub ed25519.PublicKey) string { return base64.URLEncoding.EncodeToString(keyHash(pub)) }

func stampLZ(s string) int {
	h := sha256.Sum256([]byte(s))
	n := 0
	for _, b := range h {
		if b == 0 {
			n += 8
			continue
		}
		return n + bits.LeadingZeros8(b)
	}
	return n
}

// makeProof builds a proof of work by hand (same stamp format as hashcash.String()).  tamper "" gives a valid proof.
func makeProof(r *mrand.Rand, priv ed25519.PrivateKey, tamper string) *protocol.ProofOfWork {
	pub := priv.Public().(ed25519.PublicKey)
	diff := pki.HashcashDifficulty
	need := diff
	subj := subjectOf(pub)
	exp := time.Now().Add(pki.HashcashExpires).Unix()
	switch tamper {
	case "difficulty":
		diff = pki.HashcashDifficulty - 1 // cheaper stamp, still carrying 18 zero bits
	case "zero-bits":
		need = -(pki.HashcashDifficulty - 1) // exactly one bit short
	case "expired":
		exp = time.Now().Add(-3 * time.Second).Unix() // inside the window, but past
	case "far-future":
		exp = time.Now().Add(3*pki.HashcashExpires + 5*time.Second).Unix()
	case "subject":
		subj = "x" + subjectOf(pub)
	}
	nb := make([]byte, 16)
	r.Read(nb)
	prefix := strings.Join([]string{"H", strconv.Itoa(diff), strconv.FormatInt(exp, 10), subj,
		base64.RawURLEncoding.EncodeToString(nb), "SHA-256"}, ":")
	sb := make([]byte, 4)
	var stamp string
	for c := uint32(0); ; c++ {
		binary.LittleEndian.PutUint32(sb, c)
		stamp = prefix + ":" + base64.RawURLEncoding.EncodeToString(sb)
		lz := stampLZ(stamp)
		if (need >= 0 && lz >= need) || (need < 0 && lz == -need) {
			break
		}
	}
	sig := ed25519.Sign(priv, []byte(stamp))
	switch tamper {
	case "signature":
		sig[r.Intn(len(sig))] ^= 1 << uint(r.Intn(8))
	case "signed-by-other":
		_, other, _ := ed25519.GenerateKey(rand.Reader)
		sig = ed25519.Sign(other, []byte(stamp))
	}
	return &protocol.ProofOfWork{PubKey: pub, Signature: sig, Solution: stamp}
}

var proofTampers = []string{"signature", "signed-by-other", "difficulty", "zero-bits", "expired", "far-future", "subject"}

type certObs struct {
	Subj  int    `json:"subj"`
	Tok   int    `json:"tok"`
	Key   int    `json:"key"`
	PKey  int    `json:"pkey"`
	Bound bool   `json:"bound"`
	Ver   string `json:"ver"`
	Chain bool   `json:"chain"`
	CN    string `json:"cn"`
}

// indexer numbers distinct values 1, 2, ... in order of appearance
type indexer map[string]int

func (x indexer) of(s string) int {
	if v, ok := x[s]; ok {
		return v
	}
	x[s] = len(x) + 1
	return x[s]
}

type world struct {
	server   *implpki.Server
	clientCA tls.Certificate
	rootCA   tls.Certificate // the issuer of the client CA (second certificate of its bundle)
	pool     *x509.CertPool
}

func (w *world) describe(der []byte, subj, tok, keys indexer, proofKey ed25519.PublicKey) certObs {
	var o certObs
	cert, err := x509.ParseCertificate(der)
	if err != nil {
		o.CN = "unparsable: " + err.Error()
		return o
	}
	o.CN = cert.Subject.CommonName
	o.Subj = subj.of(string(cert.RawSubject))
	if pk, ok := cert.PublicKey.(ed25519.PublicKey); ok {
		o.Key = keys.of(string(pk))
		if id, err := pki.ExtractCertificateIdentity(cert); err == nil {
			o.Tok = tok.of(string(id.Token))
			o.Ver = string(id.Version)
			parts := strings.Split(string(id.Token), ":")
			o.Bound = len(parts) == 3 && parts[2] == subjectOf(pk)
		}
	}
	if proofKey != nil {
		o.PKey = keys.of(string(proofKey))
	}
	_, err = cert.Verify(x509.VerifyOptions{Roots: w.pool, KeyUsages: []x509.ExtKeyUsage{x509.ExtKeyUsageClientAuth}})
	o.Chain = err == nil
	return o
}

type renewCase struct {
	Fam   string
	CA    string
	Ver   string
	Key   bool
	Proof bool
	Keys  []int
}

type renewObs struct {
	Renewed      bool    `json:"renewed"`
	Code         string  `json:"code"`
	Err          string  `json:"err,omitempty"`
	Old          certObs `json:"old"`
	New          certObs `json:"new"`
	SameSubject  bool    `json:"sameSubject"`  // pkix subject of the renewed certificate equals the old one byte for byte
	SameIdentity bool    `json:"sameIdentity"` // ExtractCertificateIdentity: same ID, token and version
	How          string  `json:"how"`
	// the conditions recomputed on the concrete objects (harness sanity)
	FCA, FV2, FKey bool
}

func (w *world) renew(i int, c renewCase, variant int) renewObs {
	r := mrand.New(mrand.NewSource(verifkit.Seed()*1000003 + caseKey(c) + int64(variant)))
	ctx := context.Background()
	logger := zap.NewNop()
	var o renewObs
	how := []string{}
	pubA, privA, _ := ed25519.GenerateKey(rand.Reader)
	_, privB, _ := ed25519.GenerateKey(rand.Reader)

	// the certificate to renew
	var oldDer []byte
	var err error
	id := chord.Random()
	subject := pki.MakeSubjectV2(id, keyHash(pubA))
	if c.Ver == "v1" {
		subject = pki.MakeSubjectV1(id, []string{"oldtoken", base64.URLEncoding.EncodeToString(keyHash(pubA)), "t"}[variant%3])
	}
	switch {
	case c.CA == "client" && c.Ver == "v2" && variant%2 == 0:
		// the real issuance path
		resp, e := w.server.RequestCertificate(ctx, &protocol.CertificateRequest{Proof: makeProof(r, privA, "")})
		if e != nil {
			panic("RequestCertificate with a valid proof failed: " + e.Error())
		}
		oldDer = resp.GetCertDer()
		how = append(how, "issued-by-RequestCertificate")
	case c.CA == "client":
		if c.Ver == "v2" { // issued out of band with the CA: the subject need not be the one RequestCertificate would build
			if variant%4 == 1 || variant%6 == 5 {
				other := make([]byte, 32)
				rand.Read(other)
				subject = pki.MakeSubjectV2(id, other)
				how = append(how, "hash-component-not-of-key")
			}
			if variant%4 == 1 || variant%4 == 3 {
				subject.Organization = []string{"verif org"}
				subject.OrganizationalUnit = []string{"unit 7"}
				how = append(how, "further-subject-attributes")
			}
		}
		oldDer, err = pki.GenerateCertificate(logger, w.clientCA, pki.IdentityRequest{PublicKey: pubA, Subject: subject})
		how = append(how, "issued-by-client-CA")
	default:
		switch variant % 4 {
		case 0: // the issuer of the client CA itself: in the configured bundle, but not the client CA
			oldDer, err = pki.GenerateCertificate(logger, w.rootCA, pki.IdentityRequest{PublicKey: pubA, Subject: subject})
			how = append(how, "issued-by-the-client-CA's-own-issuer")
		case 1: // another CA with the same name as the client CA
			oldDer, err = pki.GenerateCertificate(logger, makeCA("client ca"), pki.IdentityRequest{PublicKey: pubA, Subject: subject})
			how = append(how, "foreign-CA-same-name")
		case 2:
			oldDer, err = pki.GenerateCertificate(logger, makeCA("someone else"), pki.IdentityRequest{PublicKey: pubA, Subject: subject})
			how = append(how, "foreign-CA")
		default: // self-signed by the client key itself
			tmpl := &x509.Certificate{SerialNumber: big.NewInt(7), Subject: subject, NotBefore: time.Now().Add(-time.Minute),
				NotAfter: time.Now().Add(time.Hour), ExtKeyUsage: []x509.ExtKeyUsage{x509.ExtKeyUsageClientAuth},
				KeyUsage: x509.KeyUsageDigitalSignature, BasicConstraintsValid: true}
			oldDer, err = x509.CreateCertificate(rand.Reader, tmpl, tmpl, pubA, privA)
			how = append(how, "self-signed")
		}
	}
	if err != nil {
		panic(err)
	}

	// the proof
	signer := privA
	if !c.Key {
		signer = privB
		how = append(how, "proof-by-other-key")
	}
	tamper := ""
	if !c.Proof {
		tamper = proofTampers[r.Intn(len(proofTampers))]
		how = append(how, "proof-"+tamper)
	}
	proof := makeProof(r, signer, tamper)

	subj, tok, keys := indexer{}, indexer{}, indexer{}
	o.Old = w.describe(oldDer, subj, tok, keys, nil)
	o.FCA = o.Old.Chain
	o.FV2 = o.Old.Ver == "v2"
	o.FKey = string(proof.GetPubKey()) == string(pubA)

	var resp *protocol.CertificateResponse
	if p := verifkit.Recover(func() {
		resp, err = w.server.RenewCertificate(ctx, &protocol.CertificateRenewalRequest{Proof: proof, CurrentCertDer: oldDer})
	}); p != "" {
		o.Code = "panic"
		o.Err = p
	} else if err != nil {
		o.Err = err.Error()
		var te twirp.Error
		if errors.As(err, &te) {
			o.Code = string(te.Code())
		} else {
			o.Code = "error"
		}
	} else {
		o.Renewed = true
		o.Code = "renewed"
		o.New = w.describe(resp.GetCertDer(), subj, tok, keys, proof.GetPubKey())
		oc, _ := x509.ParseCertificate(oldDer)
		nc, e := x509.ParseCertificate(resp.GetCertDer())
		if e == nil {
			o.SameSubject = string(oc.RawSubject) == string(nc.RawSubject)
			oi, e1 := pki.ExtractCertificateIdentity(oc)
			ni, e2 := pki.ExtractCertificateIdentity(nc)
			o.SameIdentity = e1 == nil && e2 == nil && oi.ID == ni.ID && string(oi.Token) == string(ni.Token) && oi.Version == ni.Version
		}
	}
	o.How = strings.Join(how, ",")
	return o
}

type issueObs struct {
	Certs []certObs `json:"certs"`
	// certificates of the same client CA that exist besides the ones just issued (version-1 subjects as the migration tool signs them: the
	// token is whatever 44 characters the old installation used, colons included; several share an id and a prefix of the token)
	Elders []certObs `json:"elders"`
	Err    string    `json:"err,omitempty"`
}

func (w *world) issue(i int, c renewCase, variant int) issueObs {
	r := mrand.New(mrand.NewSource(verifkit.Seed()*1000003 + caseKey(c) + int64(variant)))
	privs := map[int]ed25519.PrivateKey{}
	subj, tok, keys := indexer{}, indexer{}, indexer{}
	// number the keys of the case first so that key index = the case's key number
	for _, k := range c.Keys {
		if _, ok := privs[k]; !ok {
			_, p, _ := ed25519.GenerateKey(rand.Reader)
			privs[k] = p
		}
	}
	for k := 1; k <= len(privs); k++ {
		if keys.of(string(privs[k].Public().(ed25519.PublicKey))) != k {
			panic("key numbering")
		}
	}
	var o issueObs
	for _, k := range c.Keys {
		priv := privs[k]
		var req *protocol.CertificateRequest
		var err error
		if variant%2 == 0 {
			req, err = implpki.CreateRequest(priv) // the client's own request builder (real solver)
		} else {
			req = &protocol.CertificateRequest{Proof: makeProof(r, priv, "")}
		}
		if err != nil {
			o.Err = "CreateRequest: " + err.Error()
			return o
		}
		resp, err := w.server.RequestCertificate(context.Background(), req)
		if err != nil {
			o.Err = "RequestCertificate: " + err.Error()
			return o
		}
		o.Certs = append(o.Certs, w.describe(resp.GetCertDer(), subj, tok, keys, priv.Public().(ed25519.PublicKey)))
	}
	id := uint64(1000 + r.Intn(1000))
	for _, t := range []string{"c2hhcmVk", "c2hhcmVk:QUFB", "c2hhcmVk:QkJC", "c2hhcmVk:QUFB:x", "plain-token"} {
		pub, _, _ := ed25519.GenerateKey(rand.Reader)
		der, err := pki.GenerateCertificate(zap.NewNop(), w.clientCA, pki.IdentityRequest{Subject: pki.MakeSubjectV1(id, t), PublicKey: pub})
		if err != nil {
			o.Err = "GenerateCertificate: " + err.Error()
			return o
		}
		o.Elders = append(o.Elders, w.describe(der, subj, tok, keys, nil))
	}
	return o
}

func main() {
	variants := 3
	if len(os.Args) > 1 {
		variants, _ = strconv.Atoi(os.Args[1])
	}
	// the client CA is an intermediate configured with its chain (what tls.X509KeyPair yields from a chain file): certificate 0 is the
	// client CA, certificate 1 its issuer, which is NOT the client CA
	root := makeCA("verif root")
	ca := makeIntermediate("client ca", root)
	caCert, _ := x509.ParseCertificate(ca.Certificate[0])
	pool := x509.NewCertPool()
	pool.AddCert(caCert)
	w := &world{server: &implpki.Server{Logger: zap.NewNop(), ClientCA: ca}, clientCA: ca, rootCA: root, pool: pool}

	var cases []renewCase
	verifkit.EachCase(func(i int, raw json.RawMessage) {
		cases = append(cases, verifkit.Decode[renewCase](raw))
	})
	res := make([]any, len(cases))
	var wg sync.WaitGroup
	sem := make(chan struct{}, 12)
	for i := range cases {
		wg.Add(1)
		sem <- struct{}{}
		go func(i int) {
			defer wg.Done()
			defer func() { <-sem }()
			c := cases[i]
			switch c.Fam {
			case "renew":
				out := make([]renewObs, variants)
				for v := range out {
					out[v] = w.renew(i, c, v)
				}
				res[i] = out
			case "issue":
				out := make([]issueObs, variants)
				for v := range out {
					out[v] = w.issue(i, c, v)
				}
				res[i] = out
			default:
				panic(fmt.Sprint("unknown family ", c.Fam))
			}
		}(i)
	}
	wg.Wait()
	for i := range res {
		verifkit.Answer(i, res[i])
	}
	verifkit.Flush()
}
