//go:build verif

// Driver for SqliteCrash.tla (C23): "run" applies a history of operations to the SQLite store in a directory and acknowledges
// each one on stdout with one write syscall ("ACK n result"); the parent kills it with SIGKILL at seeded moments, or runs it
// under strace (lib/fsrec.py) to rebuild the directory image at every syscall boundary.  "open" reopens directories / directory
// images and prints the projection of the store: Get / PrefixList / lease of every key, ListKeys(""), RangeKeys(0, 0).
package main

import (
	"bufio"
	"context"
	"encoding/json"
	"fmt"
	"os"
	"path/filepath"
	"sort"
	"strings"
	"time"

	"go.miragespace.co/specter/internal/verifkit"
	"go.miragespace.co/specter/kv/sqlite3"
	"go.miragespace.co/specter/spec/chord"
	"go.miragespace.co/specter/spec/protocol"

	"go.uber.org/zap"
)

type Op struct {
	M  string   `json:"m"` // put delete append remove import removekeys acquire release reopen
	K  int      `json:"k"` // 1-based key index
	V  string   `json:"v"`
	C  string   `json:"c"`
	Cs []string `json:"cs"` // import: children
	Ks []int    `json:"ks"` // import / removekeys: key indexes
	N  int      `json:"n"`  // importfill / removefill: that many filler keys ("z/0001" ...) in one call
}

type History struct {
	Dir   string   `json:"dir"`
	Keys  []string `json:"keys"`
	Ops   []Op     `json:"ops"`
	Close bool     `json:"close"` // clean Close() at the end instead of an abrupt exit
	Hold  int      `json:"hold"`  // milliseconds to stay alive after the last acknowledgement (kill mode)
}

func initSqlite() {
	cache := os.Getenv("VERIF_WAZERO_CACHE")
	if cache == "" {
		cache = filepath.Join(os.TempDir(), "verif-wazero-cache")
	}
	os.MkdirAll(cache, 0o755)
	if err := sqlite3.Initialize(cache); err != nil {
		panic(err)
	}
}

func errName(err error) string {
	switch {
	case err == nil:
		return "ok"
	case err == chord.ErrKVPrefixConflict:
		return "prefix-conflict"
	case err == chord.ErrKVSimpleConflict:
		return "simple-conflict"
	case err == chord.ErrKVLeaseConflict:
		return "lease-conflict"
	case err == chord.ErrKVLeaseExpired:
		return "lease-expired"
	case err == chord.ErrKVLeaseInvalidTTL:
		return "invalid-ttl"
	}
	return "error:" + err.Error()
}

func project(kv *sqlite3.SqliteKV, keys []string) map[string]any {
	ctx := context.Background()
	simple := make([]string, len(keys))
	kids := make([][]string, len(keys))
	lease := make([]bool, len(keys))
	errs := []string{}
	kb := make([][]byte, len(keys))
	for i, k := range keys {
		kb[i] = []byte(k)
		v, err := kv.Get(ctx, kb[i])
		if err != nil {
			errs = append(errs, "get: "+err.Error())
		}
		simple[i] = string(v)
		ch, err := kv.PrefixList(ctx, kb[i])
		if err != nil {
			errs = append(errs, "list: "+err.Error())
		}
		l := []string{}
		for _, c := range ch {
			l = append(l, string(c))
		}
		sort.Strings(l)
		kids[i] = l
	}
	ex, err := kv.Export(ctx, kb)
	if err != nil {
		errs = append(errs, "export: "+err.Error())
	} else {
		for i := range keys {
			lease[i] = ex[i].GetLeaseToken() != 0
		}
	}
	listed := [][]string{}
	lk, err := kv.ListKeys(ctx, []byte(""))
	if err != nil {
		errs = append(errs, "listkeys: "+err.Error())
	}
	for _, k := range lk {
		listed = append(listed, []string{string(k.GetKey()), k.GetType().String()})
	}
	sort.Slice(listed, func(i, j int) bool { return listed[i][0]+"/"+listed[i][1] < listed[j][0]+"/"+listed[j][1] })
	ranged := []string{}
	rk, err := kv.RangeKeys(ctx, 0, 0)
	if err != nil {
		errs = append(errs, "rangekeys: "+err.Error())
	}
	for _, k := range rk {
		ranged = append(ranged, string(k))
	}
	sort.Strings(ranged)
	// filler keys of the bulk operations are reported as counts
	fillRanged, fillListed := 0, 0
	keep := ranged[:0]
	for _, k := range ranged {
		if strings.HasPrefix(k, "z/") {
			fillRanged++
		} else {
			keep = append(keep, k)
		}
	}
	ranged = keep
	keepL := listed[:0]
	for _, k := range listed {
		if strings.HasPrefix(k[0], "z/") {
			fillListed++
		} else {
			keepL = append(keepL, k)
		}
	}
	listed = keepL
	fillRead := 0
	if fillRanged > 0 || fillListed > 0 {
		for i := 1; i <= 4000; i++ {
			if v, _ := kv.Get(ctx, fillKey(i)); len(v) > 0 {
				fillRead++
			}
		}
	}
	res := map[string]any{"simple": simple, "kids": kids, "lease": lease, "listed": listed, "ranged": ranged,
		"fill": fillRanged, "fill_listed": fillListed, "fill_read": fillRead}
	if len(errs) > 0 {
		res["err"] = fmt.Sprint(errs)
	}
	return res
}

func fillKey(i int) []byte { return []byte(fmt.Sprintf("z/%04d", i)) }

func main() {
	initSqlite()
	ctx := context.Background()
	switch os.Args[1] {
	case "run":
		var h History
		if err := json.NewDecoder(os.Stdin).Decode(&h); err != nil {
			panic(err)
		}
		kv, err := sqlite3.New(sqlite3.Config{Logger: zap.NewNop(), HashFn: chord.Hash, DataDir: h.Dir})
		if err != nil {
			fmt.Printf("OPEN-ERROR %v\n", err)
			os.Exit(3)
		}
		out := os.Stdout
		key := func(i int) []byte { return []byte(h.Keys[i-1]) }
		keys := func(is []int) [][]byte {
			var ks [][]byte
			for _, i := range is {
				ks = append(ks, key(i))
			}
			return ks
		}
		tokens := map[int]uint64{}
		out.WriteString("READY\n")
		for n, op := range h.Ops {
			var err error
			switch op.M {
			case "put":
				err = kv.Put(ctx, key(op.K), []byte(op.V))
			case "delete":
				err = kv.Delete(ctx, key(op.K))
			case "append":
				err = kv.PrefixAppend(ctx, key(op.K), []byte(op.C))
			case "remove":
				err = kv.PrefixRemove(ctx, key(op.K), []byte(op.C))
			case "import":
				var vals []*protocol.KVTransfer
				for range op.Ks {
					t := &protocol.KVTransfer{SimpleValue: []byte(op.V)}
					for _, c := range op.Cs {
						t.PrefixChildren = append(t.PrefixChildren, []byte(c))
					}
					vals = append(vals, t)
				}
				err = kv.Import(ctx, keys(op.Ks), vals)
			case "removekeys":
				err = kv.RemoveKeys(ctx, keys(op.Ks))
			case "importfill":
				var ks [][]byte
				var vals []*protocol.KVTransfer
				for i := 1; i <= op.N; i++ {
					ks = append(ks, fillKey(i))
					vals = append(vals, &protocol.KVTransfer{SimpleValue: []byte("f")})
				}
				err = kv.Import(ctx, ks, vals)
			case "removefill":
				var ks [][]byte
				for i := 1; i <= op.N; i++ {
					ks = append(ks, fillKey(i))
				}
				err = kv.RemoveKeys(ctx, ks)
			case "acquire":
				var tok uint64
				tok, err = kv.Acquire(ctx, key(op.K), time.Hour)
				if err == nil {
					tokens[op.K] = tok
				}
			case "release":
				tok, ok := tokens[op.K]
				if !ok {
					tok = 4242
				}
				err = kv.Release(ctx, key(op.K), tok)
			case "flipreopen": // clean Close, then New with a hash function that differs for the keys op.Ks: mutations of their data must be refused whole
				kv.Close()
				flipped := map[string]bool{}
				for _, k := range op.Ks {
					flipped[h.Keys[k-1]] = true
				}
				hf := func(b []byte) uint64 {
					if flipped[string(b)] {
						return chord.Hash(b) ^ 0x5a5a
					}
					return chord.Hash(b)
				}
				kv, err = sqlite3.New(sqlite3.Config{Logger: zap.NewNop(), HashFn: hf, DataDir: h.Dir})
				if err != nil {
					out.WriteString(fmt.Sprintf("ACK %d error:reopen: %v\n", n+1, err))
					os.Exit(0)
				}
			case "reopen": // clean Close (checkpoint, log removed) and New in the same process
				kv.Close()
				kv, err = sqlite3.New(sqlite3.Config{Logger: zap.NewNop(), HashFn: chord.Hash, DataDir: h.Dir})
				if err != nil {
					out.WriteString(fmt.Sprintf("ACK %d error:reopen: %v\n", n+1, err))
					os.Exit(0)
				}
			default:
				panic("op " + op.M)
			}
			// one write syscall per acknowledgement: the recorder orders it against the file operations
			out.WriteString(fmt.Sprintf("ACK %d %s\n", n+1, errName(err)))
		}
		b, _ := json.Marshal(project(kv, h.Keys))
		if h.Close {
			kv.Close()
			out.WriteString("CLOSED " + string(b) + "\n")
			return
		}
		out.WriteString("FINAL " + string(b) + "\n")
		if h.Hold > 0 {
			time.Sleep(time.Duration(h.Hold) * time.Millisecond)
		}
		os.Exit(0) // abrupt: no Close, no checkpoint
	case "open":
		var keys []string
		json.Unmarshal([]byte(os.Args[2]), &keys)
		sc := bufio.NewScanner(os.Stdin)
		i := 0
		for sc.Scan() {
			dir := sc.Text()
			var res map[string]any
			p := verifkit.Recover(func() {
				kv, err := sqlite3.New(sqlite3.Config{Logger: zap.NewNop(), HashFn: chord.Hash, DataDir: dir})
				if err != nil {
					res = map[string]any{"err": "open: " + err.Error()}
					return
				}
				res = project(kv, keys)
				kv.Close()
			})
			if p != "" {
				res = map[string]any{"err": "panic: " + p}
			}
			verifkit.Answer(i, res)
			i++
		}
		verifkit.Flush()
	}
}
