//go:build verif

// Driver for Retry.tla (C15): runs the real chord.WrapRetryKV over a scripted stub node.
// Call k of the underlying method answers with outcome seq[k]: "ok" (a value tagged with k where the method has
// one), "retryable" / "fatal" (an error object tagged with k that wraps a retryable / non-retryable error).
package main

import (
	"os"
	"net"
	"context"
	"encoding/json"
	"errors"
	"fmt"
	"strings"
	"sync"
	"time"

	"go.miragespace.co/specter/internal/verifkit"
	"go.miragespace.co/specter/spec/chord"
	"go.miragespace.co/specter/spec/protocol"
)

type tagged struct {
	k    int
	base error
}

func (t *tagged) Error() string { return fmt.Sprintf("call %d: %v", t.k, t.base) }
func (t *tagged) Unwrap() error { return t.base }

var retryables = []error{chord.ErrKVStaleOwnership, chord.ErrKVPendingTransfer, context.DeadlineExceeded,
	chord.ErrJoinInvalidState, fmt.Errorf("remote: %w", chord.ErrKVStaleOwnership)}
var fatals = []error{chord.ErrKVSimpleConflict, chord.ErrKVPrefixConflict, chord.ErrKVLeaseConflict, chord.ErrKVLeaseExpired,
	chord.ErrNodeGone, errors.New("disk on fire"), context.Canceled, chord.ErrKVHashFnChanged,
	// timeout-flavoured transport errors that are not the context deadline: net.Error with Timeout() == true, bare and wrapped
	&net.OpError{Op: "read", Net: "udp", Err: os.ErrDeadlineExceeded}, &net.DNSError{Err: "i/o timeout", Name: "node.internal", IsTimeout: true},
	fmt.Errorf("sending request: %w", &net.OpError{Op: "dial", Net: "tcp", Err: os.ErrDeadlineExceeded})}

type script struct {
	chord.VNode // nil: any method the wrapper should not touch panics
	mu          sync.Mutex
	seq         []string
	salt        int
	calls       int
	errs        []error // error object returned by call k (nil for ok)
	overrun     bool
	argsBad     bool
}

func (s *script) step() (int, error) {
	s.mu.Lock()
	defer s.mu.Unlock()
	s.calls++
	k := s.calls
	var err error
	if k > len(s.seq) {
		s.overrun = true
		err = &tagged{k, errors.New("script exhausted")}
	} else {
		switch s.seq[k-1] {
		case "ok":
		case "retryable":
			err = &tagged{k, retryables[(k+s.salt)%len(retryables)]}
		case "fatal":
			err = &tagged{k, fatals[(k+s.salt)%len(fatals)]}
		default:
			panic("bad outcome " + s.seq[k-1])
		}
	}
	s.errs = append(s.errs, err)
	return k, err
}

func (s *script) chk(ok bool) {
	if !ok {
		s.mu.Lock()
		s.argsBad = true
		s.mu.Unlock()
	}
}

var (
	argKey = []byte("key-1")
	argVal = []byte("value-1")
	argTTL = 90 * time.Second
	argTok = uint64(0xfeed)
)

func (s *script) Put(_ context.Context, k, v []byte) error {
	s.chk(string(k) == string(argKey) && string(v) == string(argVal))
	_, err := s.step()
	return err
}
func (s *script) Get(_ context.Context, k []byte) ([]byte, error) {
	s.chk(string(k) == string(argKey))
	n, err := s.step()
	if err != nil {
		return []byte{0xee}, err
	}
	return []byte{byte(n)}, nil
}
func (s *script) Delete(_ context.Context, k []byte) error {
	s.chk(string(k) == string(argKey))
	_, err := s.step()
	return err
}
func (s *script) PrefixAppend(_ context.Context, p, c []byte) error {
	s.chk(string(p) == string(argKey) && string(c) == string(argVal))
	_, err := s.step()
	return err
}
func (s *script) PrefixList(_ context.Context, p []byte) ([][]byte, error) {
	s.chk(string(p) == string(argKey))
	n, err := s.step()
	if err != nil {
		return [][]byte{{0xee}}, err
	}
	return [][]byte{{byte(n)}}, nil
}
func (s *script) PrefixContains(_ context.Context, p, c []byte) (bool, error) {
	s.chk(string(p) == string(argKey) && string(c) == string(argVal))
	_, err := s.step()
	return err == nil, err
}
func (s *script) PrefixRemove(_ context.Context, p, c []byte) error {
	s.chk(string(p) == string(argKey) && string(c) == string(argVal))
	_, err := s.step()
	return err
}
func (s *script) Acquire(_ context.Context, l []byte, ttl time.Duration) (uint64, error) {
	s.chk(string(l) == string(argKey) && ttl == argTTL)
	n, err := s.step()
	if err != nil {
		return 0xee, err
	}
	return uint64(n), nil
}
func (s *script) Renew(_ context.Context, l []byte, ttl time.Duration, prev uint64) (uint64, error) {
	s.chk(string(l) == string(argKey) && ttl == argTTL && prev == argTok)
	n, err := s.step()
	if err != nil {
		return 0xee, err
	}
	return uint64(n), nil
}
func (s *script) Release(_ context.Context, l []byte, tok uint64) error {
	s.chk(string(l) == string(argKey) && tok == argTok)
	_, err := s.step()
	return err
}
func (s *script) ListKeys(_ context.Context, p []byte) ([]*protocol.KeyComposite, error) {
	s.chk(string(p) == string(argKey))
	n, err := s.step()
	if err != nil {
		return []*protocol.KeyComposite{{Key: []byte{0xee}}}, err
	}
	return []*protocol.KeyComposite{{Key: []byte{byte(n)}}}, nil
}

type tcase struct {
	M        string
	Attempts uint
	Seq      []string
}

type obs struct {
	Calls   int    `json:"calls"`
	Res     string `json:"res"`     // "ok" | "err"
	At      int    `json:"at"`      // which call's value (ok, value methods) / error (err) came back; 0 = not identifiable
	ErrSame bool   `json:"errSame"` // the returned error is the very object call `at` returned
	Overrun bool   `json:"overrun"` // more calls than scripted (attempts+1)
	ArgsBad bool   `json:"argsBad"` // arguments reached the node changed (recorded, not judged)
	Err     string `json:"err,omitempty"`
	Panic   string `json:"panic,omitempty"`
}

func runCase(i int, c tcase) obs {
	st := &script{seq: c.Seq, salt: len(c.M) + int(c.Attempts)*3 + len(strings.Join(c.Seq, "")) + int(verifkit.Seed())}
	w := chord.WrapRetryKV(st, time.Microsecond, c.Attempts)
	ctx := context.Background()
	var o obs
	var err error
	at := 0
	o.Panic = verifkit.Recover(func() {
		switch c.M {
		case "Put":
			err = w.Put(ctx, argKey, argVal)
		case "Get":
			var v []byte
			v, err = w.Get(ctx, argKey)
			if err == nil && len(v) == 1 {
				at = int(v[0])
			}
		case "Delete":
			err = w.Delete(ctx, argKey)
		case "PrefixAppend":
			err = w.PrefixAppend(ctx, argKey, argVal)
		case "PrefixList":
			var v [][]byte
			v, err = w.PrefixList(ctx, argKey)
			if err == nil && len(v) == 1 && len(v[0]) == 1 {
				at = int(v[0][0])
			}
		case "PrefixContains":
			var b bool
			b, err = w.PrefixContains(ctx, argKey, argVal)
			if err == nil && !b {
				at = -1 // a success must report what the node answered (true)
			}
		case "PrefixRemove":
			err = w.PrefixRemove(ctx, argKey, argVal)
		case "Acquire":
			var t uint64
			t, err = w.Acquire(ctx, argKey, argTTL)
			if err == nil {
				at = int(t)
			}
		case "Renew":
			var t uint64
			t, err = w.Renew(ctx, argKey, argTTL, argTok)
			if err == nil {
				at = int(t)
			}
		case "Release":
			err = w.Release(ctx, argKey, argTok)
		case "ListKeys":
			var v []*protocol.KeyComposite
			v, err = w.ListKeys(ctx, argKey)
			if err == nil && len(v) == 1 && len(v[0].GetKey()) == 1 {
				at = int(v[0].GetKey()[0])
			}
		default:
			panic("unknown method " + c.M)
		}
	})
	st.mu.Lock()
	defer st.mu.Unlock()
	o.Calls = st.calls
	o.Overrun = st.overrun
	o.ArgsBad = st.argsBad
	if err == nil {
		o.Res = "ok"
		o.At = at
	} else {
		o.Res = "err"
		o.Err = err.Error()
		var t *tagged
		if errors.As(err, &t) {
			o.At = t.k
			if t.k >= 1 && t.k <= len(st.errs) {
				o.ErrSame = err == st.errs[t.k-1]
			}
		}
	}
	return o
}

func main() {
	var cases []tcase
	verifkit.EachCase(func(i int, raw json.RawMessage) {
		cases = append(cases, verifkit.Decode[tcase](raw))
	})
	// the wrapper sleeps up to retry-go's default 100ms jitter between attempts: run the independent cases concurrently
	res := make([]obs, len(cases))
	sem := make(chan struct{}, 256)
	var wg sync.WaitGroup
	for i := range cases {
		wg.Add(1)
		sem <- struct{}{}
		go func(i int) {
			defer wg.Done()
			defer func() { <-sem }()
			res[i] = runCase(i, cases[i])
		}(i)
	}
	wg.Wait()
	for i := range res {
		verifkit.Answer(i, res[i])
	}
	verifkit.Flush()
}
