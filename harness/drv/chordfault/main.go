//go:build verif

// Driver for C07 (ChordFault): one membership operation (a join into a populated ring, or the leave of a
// populated node) is run on a ring of real LocalNodes that talk to each other only through the in-memory RPC
// fabric, with one fault rule installed (RPC x fault mode x occurrence).  The retries run with their real
// back-off (1 ms intervals), periodic tasks are parked (Sched.TaskStop) and maintenance is invoked by the
// driver in rounds until nothing changes; then the node states, the stored copies and a Get of every
// acknowledged key from every remaining node are reported.
package main

import (
	"context"
	"encoding/json"
	"fmt"
	"os"
	"reflect"
	"sort"
	"strings"
	"sync"
	"time"

	implchord "go.miragespace.co/specter/chord"
	"go.miragespace.co/specter/internal/verifkit"
	"go.miragespace.co/specter/internal/verifkit/fabric"
	"go.miragespace.co/specter/internal/verifkit/ring"
	"go.miragespace.co/specter/spec/chord"
	"go.miragespace.co/specter/util/verifhook"

	"go.uber.org/zap"
)

type RuleIn struct {
	Method string `json:"method"`
	Sub    string `json:"sub"`
	Target string `json:"target"` // node name, "" = any callee
	Nth    int    `json:"nth"`
	From   int    `json:"from"`
	Mode   string `json:"mode"`
	Err    string `json:"err"`
}

type Case struct {
	Name    string      `json:"name"`
	Layout  []ring.Item `json:"layout"`
	Variant int         `json:"variant"`
	Members []string    `json:"members"` // initial ring, in joining order (the first one creates it)
	Op      string      `json:"op"`      // "join" | "leave"
	Node    string      `json:"node"`    // the joiner / the leaver
	Via     string      `json:"via"`     // join: the contacted member
	Rule    *RuleIn     `json:"rule"`    // nil: no fault
	Maint   string      `json:"maint"`   // "after" (default) | "between": a maintenance round before every attempt of the operation
	Bulk    int         `json:"bulk"`    // that many further keys are stored through the ring beforehand and read back at the end
}

type nodeReg struct {
	mu sync.RWMutex
	m  map[uint64]*implchord.LocalNode
}

func (r *nodeReg) put(n *implchord.LocalNode) {
	r.mu.Lock()
	r.m[n.ID()] = n
	r.mu.Unlock()
}
func (r *nodeReg) get(id uint64) (*implchord.LocalNode, bool) {
	r.mu.RLock()
	n, ok := r.m[id]
	r.mu.RUnlock()
	return n, ok
}

type runner struct {
	c     Case
	r     *ring.Ring
	fab   *fabric.Fabric
	reg   *nodeReg
	sched *verifkit.Sched
	names []string // created nodes, in creation order
}

func (x *runner) node(name string) *implchord.LocalNode {
	if n, ok := x.r.Nodes[name]; ok {
		return n
	}
	n := x.r.Node(name)
	x.reg.put(n)
	x.fab.Register(n)
	x.names = append(x.names, name)
	return n
}

func live(n *implchord.LocalNode) bool {
	switch n.VerifState() {
	case chord.Active, chord.Transferring, chord.Joining, chord.Leaving:
		return true
	}
	return false
}

func (x *runner) liveNames() []string {
	var out []string
	for _, name := range x.names {
		if live(x.r.Nodes[name]) {
			out = append(out, name)
		}
	}
	sort.Strings(out)
	return out
}

// round: one maintenance round over all live nodes
func (x *runner) round() {
	for _, name := range x.liveNames() {
		n := x.r.Nodes[name]
		n.VerifStabilize()
		n.VerifCheckPred()
		n.VerifFixFinger()
	}
}

// settle runs maintenance rounds until the projected state (pointers, fingers, stores) stops changing.
func (x *runner) settle(max int) (bool, int) {
	for rd := 0; rd < max; rd++ {
		before := x.r.Snapshot(true, false)
		x.round()
		if reflect.DeepEqual(before, x.r.Snapshot(true, false)) {
			return true, rd + 1
		}
	}
	return false, max
}

func within(d time.Duration, fn func() any) (res any, ok bool) {
	ch := make(chan any, 1)
	go func() {
		defer func() {
			if r := recover(); r != nil {
				ch <- "panic: " + fmt.Sprint(r)
			}
		}()
		ch <- fn()
	}()
	select {
	case v := <-ch:
		return v, true
	case <-time.After(d):
		return "hang", false
	}
}

func (x *runner) run() map[string]any {
	c := x.c
	logger := zap.NewNop()
	if os.Getenv("VERIF_DEBUG") != "" {
		logger, _ = zap.NewDevelopment()
	}
	ctx := context.Background()
	x.r = ring.Build(c.Layout, verifkit.Seed(), c.Variant, logger)
	x.fab = fabric.New(logger)
	x.r.Client = x.fab
	x.reg = &nodeReg{m: map[uint64]*implchord.LocalNode{}}
	x.sched = verifkit.NewSched()
	x.sched.StepWait = 30 * time.Second
	never := make(chan struct{})
	x.sched.TaskStop = func(id uint64) <-chan struct{} {
		if n, ok := x.reg.get(id); ok {
			return n.VerifStopCh()
		}
		return never
	}
	x.sched.Gates = func(p string) bool { return c.Maint == "between" && (p == "join:attempt" || p == "leave:attempt") }
	verifhook.AtFn = x.sched.At
	defer func() { verifhook.AtFn = nil }()
	out := map[string]any{"name": c.Name}

	// the initial ring, built through the fabric (no faults), and its data
	for i, name := range c.Members {
		n := x.node(name)
		if i == 0 {
			if err := n.Create(); err != nil {
				out["err"] = "create: " + err.Error()
				return out
			}
		} else {
			via := x.r.Nodes[c.Members[i-1]]
			res, ok := within(20*time.Second, func() any { return ring.ErrClass(n.Join(x.fab.Remote(via.Identity()))) })
			if !ok || res != "ok" {
				out["err"] = fmt.Sprintf("initial join of %s: %v", name, res)
				return out
			}
		}
		x.settle(40)
	}
	var keys []string
	for k := range x.r.Keys {
		keys = append(keys, k)
	}
	sort.Strings(keys)
	acked := map[string]string{}
	for i, k := range keys {
		at := x.r.Nodes[c.Members[i%len(c.Members)]]
		v := "v-" + k
		if err := at.Put(ctx, x.r.Keys[k], []byte(v)); err != nil {
			out["err"] = fmt.Sprintf("initial put of %s: %v", k, err)
			return out
		}
		acked[k] = v
	}
	bulk := map[string]string{}
	for j := 0; j < c.Bulk; j++ {
		k := fmt.Sprintf("bulk-%s-%04d", c.Name, j)
		at := x.r.Nodes[c.Members[j%len(c.Members)]]
		if err := at.Put(ctx, []byte(k), []byte("b-"+k)); err != nil {
			out["err"] = fmt.Sprintf("initial put of %s: %v", k, err)
			return out
		}
		bulk[k] = "b-" + k
	}
	if ok, _ := x.settle(40); !ok {
		out["err"] = "initial ring does not settle"
		return out
	}
	out["before"] = x.project()
	x.fab.TakeLog()

	// the operation under the fault rule
	if c.Rule != nil {
		r := fabric.Rule{Method: c.Rule.Method, Sub: c.Rule.Sub, Nth: c.Rule.Nth, From: c.Rule.From, Mode: c.Rule.Mode, Err: c.Rule.Err}
		if c.Rule.Target != "" {
			r.Target = x.r.NodeID[c.Rule.Target]
		}
		x.fab.SetRules(r)
	}
	var fn func() any
	switch c.Op {
	case "join":
		n := x.node(c.Node)
		via := x.fab.Remote(x.r.Nodes[c.Via].Identity())
		fn = func() any { return ring.ErrClass(n.Join(via)) }
	case "leave":
		n := x.r.Nodes[c.Node]
		fn = func() any { n.Leave(); return n.VerifState().String() }
	default:
		out["err"] = "unknown op " + c.Op
		return out
	}
	t0 := time.Now()
	var res any
	finished := true
	if c.Maint == "between" {
		// the operation parks before each of its attempts; the driver runs one maintenance round there
		op, status := x.sched.Start("op", fn)
		attempts := 0
		for status != "done" && status != "blocked" && attempts < 40 {
			attempts++
			x.round()
			status = x.sched.Step(op)
		}
		finished = status == "done"
		res = op.Result
		if !finished {
			res = "hang"
		}
	} else {
		res, finished = within(30*time.Second, fn)
	}
	out["op_res"] = res
	out["op_ms"] = time.Since(t0).Milliseconds()
	seen, fired := x.fab.Fired()
	out["seen"], out["fired"] = 0, 0
	if len(seen) > 0 {
		out["seen"], out["fired"] = seen[0], fired[0]
	}
	x.fab.SetRules()
	calls := x.fab.TakeLog()
	out["calls"] = x.callNames(calls)
	if !finished {
		out["err"] = "operation did not return"
		return out
	}

	// quiescence: maintenance to a fixpoint, then the observations the property speaks about
	stable, rounds := x.settle(60)
	out["stable"], out["rounds"] = stable, rounds
	out["after"] = x.project()
	gets := map[string]map[string]string{}
	for _, k := range keys {
		gets[k] = map[string]string{}
		for _, name := range x.liveNames() {
			n := x.r.Nodes[name]
			r, ok := within(10*time.Second, func() any {
				v, err := n.Get(ctx, x.r.Keys[k])
				if err != nil {
					return "err:" + ring.ErrClass(err)
				}
				return "val:" + string(v)
			})
			if !ok {
				r = "err:hang"
			}
			gets[k][name] = r.(string)
		}
	}
	out["gets"] = gets
	out["acked"] = acked
	if c.Bulk > 0 { // every further key read once, at a live node chosen by its number
		live := x.liveNames()
		sort.Strings(live)
		missing := []string{}
		j := 0
		for k, want := range bulk {
			n := x.r.Nodes[live[j%len(live)]]
			j++
			r, ok := within(10*time.Second, func() any {
				v, err := n.Get(ctx, []byte(k))
				if err != nil {
					return "err:" + ring.ErrClass(err)
				}
				return "val:" + string(v)
			})
			if !ok || r.(string) != "val:"+want {
				missing = append(missing, fmt.Sprintf("%s=%v", k, r))
			}
		}
		sort.Strings(missing)
		out["bulk_missing"] = missing
		out["bulk"] = c.Bulk
	}
	return out
}

// project: per created node its lifecycle state, neighbour pointers (as node names) and stored keys
func (x *runner) project() map[string]any {
	byRank := map[int]string{}
	for name, id := range x.r.NodeID {
		byRank[x.r.Rank[id]] = name
	}
	nm := func(rk int) string {
		if s, ok := byRank[rk]; ok {
			return s
		}
		if rk == -1 {
			return ""
		}
		return fmt.Sprintf("?%d", rk)
	}
	keyByRank := map[string]string{}
	for k, id := range x.r.KeyID {
		keyByRank[fmt.Sprint(x.r.Rank[id])] = k
	}
	snap := x.r.Snapshot(false, false)
	out := map[string]any{}
	for _, name := range x.names {
		s := snap[fmt.Sprint(x.r.Rank[x.r.NodeID[name]])]
		succ := []string{}
		for _, rk := range s.Succ {
			succ = append(succ, nm(rk))
		}
		store := map[string]string{}
		for kr, v := range s.Store {
			store[keyByRank[kr]] = v
		}
		out[name] = map[string]any{"st": s.St, "pred": nm(s.Pred), "succ": succ, "sur": nm(s.Sur), "store": store}
	}
	return out
}

func (x *runner) callNames(calls []fabric.Call) []string {
	byID := map[uint64]string{}
	for name, id := range x.r.NodeID {
		byID[id] = name
	}
	var out []string
	for _, c := range calls {
		m := c.Method
		if c.Sub != "" {
			m += "-" + c.Sub
		}
		s := m + ">" + byID[c.Target]
		if c.Fault != "" {
			s += " [" + c.Fault + "]"
		}
		res := c.Res
		if i := strings.Index(res, "twirp error "); i >= 0 {
			res = res[i+len("twirp error "):]
		}
		if len(res) > 80 {
			res = res[:80]
		}
		out = append(out, s+" = "+res)
		if len(out) >= 60 {
			out = append(out, "...")
			break
		}
	}
	return out
}

func main() {
	verifkit.EachCase(func(i int, raw json.RawMessage) {
		c := verifkit.Decode[Case](raw)
		x := &runner{c: c}
		var res map[string]any
		if p := verifkit.Recover(func() { res = x.run() }); p != "" {
			res = map[string]any{"err": "panic: " + p}
		}
		verifkit.Answer(i, res)
	})
}
