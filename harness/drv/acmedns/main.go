//go:build verif

// Driver for AcmeDns.tla (C48): every case builds the storage state of a challenge label through the real
// ChordSolver (Present / CleanUp) on the repository's in-memory KV provider, sends one query to the real
// DNS.ServeDNS through a recording dns.ResponseWriter and reports the response in the vocabulary of the spec.
package main

import (
	"context"
	"encoding/json"
	"errors"
	"fmt"
	"net"
	"os"
	"strings"

	specterACME "go.miragespace.co/specter/acme"
	"go.miragespace.co/specter/internal/verifkit"
	"go.miragespace.co/specter/kv/memory"
	acmeSpec "go.miragespace.co/specter/spec/acme"
	"go.miragespace.co/specter/spec/chord"
	"go.miragespace.co/specter/spec/protocol"
	"go.miragespace.co/specter/spec/tun"

	"github.com/mholt/acmez/v3/acme"
	"github.com/miekg/dns"
	"go.uber.org/zap"
)

// storage: the real in-memory provider; PrefixList can be made to fail
type kvNode struct {
	chord.KV // nil: anything but the calls below panics
	kv       *memory.MemoryKV
	failList bool
	lists    []string
}

func (m *kvNode) Put(ctx context.Context, k, v []byte) error     { return m.kv.Put(ctx, k, v) }
func (m *kvNode) Get(ctx context.Context, k []byte) ([]byte, error) { return m.kv.Get(ctx, k) }
func (m *kvNode) Delete(ctx context.Context, k []byte) error     { return m.kv.Delete(ctx, k) }
func (m *kvNode) PrefixAppend(ctx context.Context, p, c []byte) error {
	return m.kv.PrefixAppend(ctx, p, c)
}
func (m *kvNode) PrefixRemove(ctx context.Context, p, c []byte) error {
	return m.kv.PrefixRemove(ctx, p, c)
}
func (m *kvNode) PrefixContains(ctx context.Context, p, c []byte) (bool, error) {
	return m.kv.PrefixContains(ctx, p, c)
}
func (m *kvNode) PrefixList(ctx context.Context, p []byte) ([][]byte, error) {
	m.lists = append(m.lists, string(p))
	if m.failList {
		return nil, errors.New("verif: storage unavailable")
	}
	return m.kv.PrefixList(ctx, p)
}

type recWriter struct{ msg *dns.Msg }

func (w *recWriter) LocalAddr() net.Addr         { return &net.UDPAddr{IP: net.IPv4(127, 0, 0, 1), Port: 53} }
func (w *recWriter) RemoteAddr() net.Addr        { return &net.UDPAddr{IP: net.IPv4(192, 0, 2, 9), Port: 5353} }
func (w *recWriter) WriteMsg(m *dns.Msg) error   { w.msg = m; return nil }
func (w *recWriter) Write(b []byte) (int, error) { return len(b), nil }
func (w *recWriter) Close() error                { return nil }
func (w *recWriter) TsigStatus() error           { return nil }
func (w *recWriter) TsigTimersOnly(bool)         {}
func (w *recWriter) Hijack()                     {}

const (
	nsA    = "192.0.2.53"
	nsAAAA = "2001:db8::53"
)

func mixCase(s string, r interface{ Intn(int) int }) string {
	b := []byte(s)
	changed := false
	for i := range b {
		if b[i] >= 'a' && b[i] <= 'z' && r.Intn(2) == 0 {
			b[i] -= 32
			changed = true
		}
	}
	if !changed {
		for i := range b {
			if b[i] >= 'a' && b[i] <= 'z' {
				b[i] -= 32
				break
			}
		}
	}
	return string(b)
}

var qtypes = map[string]uint16{"TXT": dns.TypeTXT, "NS": dns.TypeNS, "SOA": dns.TypeSOA, "A": dns.TypeA,
	"AAAA": dns.TypeAAAA, "CNAME": dns.TypeCNAME, "ANY": dns.TypeANY}

func main() {
	seed := verifkit.Seed()
	rnd := verifkit.Rand(48)
	apex := fmt.Sprintf("apex%d.example.net", seed)
	zone := fmt.Sprintf("acme%d.example.org", seed)
	nsName := "ns." + zone
	custom := fmt.Sprintf("www.customer%d.org", seed)
	token := []byte(fmt.Sprintf("client-token-%d-%d", seed, rnd.Int63()))
	label := acmeSpec.EncodeClientToken(token)
	ctx := context.Background()

	chal := func(host, tok string) acme.Challenge {
		return acme.Challenge{Type: "dns-01", Token: tok, KeyAuthorization: tok + ".thumbprint",
			Identifier: acme.Identifier{Type: "dns", Value: host}}
	}
	ch1, ch2, chm := chal(custom, fmt.Sprintf("t1-%d", rnd.Int63())), chal(custom, fmt.Sprintf("t2-%d", rnd.Int63())), chal(apex, "tm")
	sym := map[string]string{ch1.DNS01KeyAuthorization(): "c1", ch2.DNS01KeyAuthorization(): "c2", chm.DNS01KeyAuthorization(): "vm"}

	verifkit.EachCase(func(i int, raw json.RawMessage) {
		c := verifkit.Decode[struct {
			Q, T, C1, C2 string
			Empty, Fail  bool
		}](raw)
		kv := &kvNode{kv: memory.WithHashFn(chord.Hash)}
		if err := tun.SaveCustomHostname(ctx, kv, custom, &protocol.CustomHostname{
			ClientIdentity: &protocol.Node{Id: 77, Address: string(token), Rendezvous: true},
			ClientToken:    &protocol.ClientToken{Token: token},
		}); err != nil {
			panic(err)
		}
		solver := &specterACME.ChordSolver{KV: kv, ManagedDomains: []string{apex}}
		// the responder lives as long as the server: it is created before the storage reaches the state of the case and has
		// answered the same question at earlier moments (warm-up queries; their answers are not judged)
		var qname string
		switch c.Q {
		case "zone":
			qname = zone + "."
		case "label":
			qname = label + "." + zone + "."
		case "labelmix":
			qname = mixCase(label, rnd) + "." + mixCase(zone, rnd) + "."
		case "managed":
			qname = acmeSpec.ManagedDelegation + "." + zone + "."
			if i%2 == 1 {
				qname = mixCase(qname, rnd)
			}
		case "nsname":
			qname = nsName + "."
		case "deep2":
			qname = "a." + label + "." + zone + "."
		case "deep3":
			qname = "a.b." + label + "." + zone + "."
		case "suffix":
			qname = "x" + zone + "."
		case "lblsuffix":
			qname = label + ".x" + zone + "."
		case "outside":
			qname = label + ".example.com."
		}
		h := specterACME.NewDNS(ctx, zap.NewNop(), kv, "hostmaster@example.org", zone, map[string][]string{nsName: {nsA, nsAAAA}})
		warm := func() {
			q := new(dns.Msg)
			q.SetQuestion(qname, qtypes[c.T])
			verifkit.Recover(func() { h.ServeDNS(&recWriter{}, q) })
		}
		if i%4 == 1 {
			warm()
		}
		setup := []string{}
		do := func(what string, err error) {
			if err != nil {
				setup = append(setup, what+": "+err.Error())
			}
		}
		// the order of the writes is varied with the case
		order := []struct {
			st string
			ch acme.Challenge
		}{{c.C1, ch1}, {c.C2, ch2}}
		if i%2 == 1 {
			order[0], order[1] = order[1], order[0]
		}
		if c.Empty && i%3 == 0 {
			do("empty", kv.PrefixAppend(ctx, []byte(specterACME.VerifC48DnsKey(label)), []byte{}))
		}
		for _, o := range order {
			if o.st != "absent" {
				do("present", solver.Present(ctx, o.ch))
			}
		}
		do("present managed", solver.Present(ctx, chm))
		if i%2 == 0 {
			warm()
		}
		if c.Empty && i%3 != 0 {
			do("empty", kv.PrefixAppend(ctx, []byte(specterACME.VerifC48DnsKey(label)), []byte{}))
		}
		for _, o := range order {
			if o.st == "removed" {
				do("cleanup", solver.CleanUp(ctx, o.ch))
			}
		}
		kv.failList = c.Fail
		kv.lists = nil

		q := new(dns.Msg)
		q.SetQuestion(qname, qtypes[c.T])
		w := &recWriter{}
		pan := verifkit.Recover(func() { h.ServeDNS(w, q) })

		type obs struct {
			Rcode   string   `json:"rcode"`
			AA      bool     `json:"aa"`
			SOA     bool     `json:"soa"`
			Answers []string `json:"answers"`
			NamesOk bool     `json:"names_ok"`
			Qname   string   `json:"qname"`
			Setup   []string `json:"setup"`
			Panic   string   `json:"panic"`
			Reads   []string `json:"reads"`
		}
		ob := obs{Qname: qname, Setup: setup, Panic: pan, NamesOk: true, Answers: []string{}, Reads: kv.lists}
		if w.msg == nil {
			ob.Rcode = "NONE"
			verifkit.Answer(i, ob)
			return
		}
		m := w.msg
		ob.Rcode = dns.RcodeToString[m.Rcode]
		switch ob.Rcode {
		case "NOTIMP", "NOERROR", "NXDOMAIN", "SERVFAIL", "REFUSED", "FORMERR":
		case "NOTIMPL":
			ob.Rcode = "NOTIMP"
		}
		ob.AA = m.Authoritative
		for _, rr := range m.Ns {
			if s, ok := rr.(*dns.SOA); ok && strings.EqualFold(s.Hdr.Name, zone+".") {
				ob.SOA = true
			}
		}
		for _, rr := range m.Answer {
			if !strings.EqualFold(rr.Header().Name, qname) {
				ob.NamesOk = false
			}
			switch v := rr.(type) {
			case *dns.TXT:
				s := strings.Join(v.Txt, "")
				if n, ok := sym[s]; ok {
					ob.Answers = append(ob.Answers, n)
				} else {
					ob.Answers = append(ob.Answers, "?TXT:"+s)
				}
			case *dns.NS:
				if strings.EqualFold(v.Ns, nsName+".") {
					ob.Answers = append(ob.Answers, "NS")
				} else {
					ob.Answers = append(ob.Answers, "?NS:"+v.Ns)
				}
			case *dns.SOA:
				ob.Answers = append(ob.Answers, "SOA")
			case *dns.A:
				if v.A.Equal(net.ParseIP(nsA)) {
					ob.Answers = append(ob.Answers, "A")
				} else {
					ob.Answers = append(ob.Answers, "?A:"+v.A.String())
				}
			case *dns.AAAA:
				if v.AAAA.Equal(net.ParseIP(nsAAAA)) {
					ob.Answers = append(ob.Answers, "AAAA")
				} else {
					ob.Answers = append(ob.Answers, "?AAAA:"+v.AAAA.String())
				}
			default:
				ob.Answers = append(ob.Answers, "?"+rr.String())
			}
		}
		verifkit.Answer(i, ob)
	})
	_ = os.Args
}
