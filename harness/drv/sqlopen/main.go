//go:build verif

// Driver for SqliteOpen.tla (C24): materialises every configuration (which v1 tables exist, whether an index named
// idx_hash exists, user_version, with / without rows) as a real database file with the repository's own SQLite driver,
// by executing the statements of the repository's migration file selectively, dumps it (schema objects, columns,
// user_version, every row) through a plain connection, calls sqlite3.New() on it, records success / refusal (and, on
// success, what the store API returns for the rows that were there), closes it and dumps again.
package main

import (
	"context"
	"crypto/sha256"
	"database/sql"
	"encoding/hex"
	"encoding/json"
	"fmt"
	"os"
	"path/filepath"
	"regexp"
	"sort"
	"strconv"
	"strings"

	"go.miragespace.co/specter/internal/verifkit"
	"go.miragespace.co/specter/kv/sqlite3"
	"go.miragespace.co/specter/spec/chord"

	"go.uber.org/zap"
)

type soCase struct {
	Tables []string `json:"tables"`
	Index  bool     `json:"index"`
	UV     int      `json:"uv"`
	Rows   bool     `json:"rows"`
	Style  string   `json:"style"` // "migration": the statements of migrations/0001 as they are; "gorm": the compact DDL of the previous implementation
	Wal    bool     `json:"wal"`   // create the file through the connection string of the code (journal_mode WAL) or a plain one
}

type dump struct {
	UV      int                   `json:"uv"`
	Objects [][]string            `json:"objects"` // type, name, tbl_name, sql   (without sqlite_ internal objects)
	Cols    map[string][]string   `json:"cols"`    // table -> column names
	IdxCols map[string][]string   `json:"idxcols"` // index -> tbl_name, column names
	Rows    map[string][][]string `json:"rows"`    // table -> sorted rows, every value tagged and hex / decimal encoded
	Err     string                `json:"err,omitempty"`
}

var (
	tmpRoot string
	stmts   = map[string]string{} // object name -> CREATE statement of the migration file
	latest  int
	reName  = regexp.MustCompile("(?i)CREATE\\s+(TABLE|INDEX)\\s+IF\\s+NOT\\s+EXISTS\\s+`([a-z_]+)`")
	reWS    = regexp.MustCompile(`\s+`)
)

const (
	v1Tables = "key_trackers simple_entries prefix_entries lease_entries"
	tokenVal = int64(4102444800000000000) // a lease that runs until 2100
)

var testKeys = [][]byte{[]byte("k1-simple"), []byte("k2-prefix"), []byte("k3-lease"), []byte("k4-all")}

func loadStatements() {
	ms, err := sqlite3.VerifMigrations()
	if err != nil || len(ms) == 0 {
		panic(fmt.Sprint("loading migrations: ", err))
	}
	latest = ms[len(ms)-1].Version
	for _, s := range strings.Split(ms[0].SQL, ";") {
		s = strings.TrimSpace(s)
		if s == "" {
			continue
		}
		m := reName.FindStringSubmatch(s)
		if m == nil {
			panic("statement of the first migration is not a CREATE ... IF NOT EXISTS: " + s)
		}
		stmts[m[2]] = s
	}
	for _, t := range strings.Fields(v1Tables + " idx_hash") {
		if stmts[t] == "" {
			panic("the first migration has no statement for " + t)
		}
	}
}

// gorm renders a statement of the migration file the way the previous implementation wrote it: no IF NOT EXISTS, no
// line breaks or padding, no explicit ASC.
func gorm(s string) string {
	s = regexp.MustCompile(`(?i)\s+IF\s+NOT\s+EXISTS`).ReplaceAllString(s, "")
	s = reWS.ReplaceAllString(s, " ")
	s = strings.NewReplacer("( ", "(", " )", ")", ", ", ",", " ASC", "").Replace(s)
	return s
}

func dsn(path string, wal bool) string {
	if wal { // kv/sqlite3/sqlite.go openSQLite
		return fmt.Sprintf("file:%s?_pragma=journal_mode(WAL)&_pragma=foreign_keys(1)&_pragma=busy_timeout(5000)&_pragma=synchronous(1)&_txlock=immediate", path)
	}
	return "file:" + path
}

func must(err error, what string) {
	if err != nil {
		panic(what + ": " + err.Error())
	}
}

func materialise(path string, c soCase) {
	db, err := sql.Open("sqlite3", dsn(path, c.Wal))
	must(err, "open")
	defer db.Close()
	db.SetMaxOpenConns(1)
	render := func(s string) string {
		if c.Style == "gorm" {
			return gorm(s)
		}
		return s
	}
	has := map[string]bool{}
	for _, t := range strings.Fields(v1Tables) { // in the order of the migration file
		for _, w := range c.Tables {
			if w == t {
				has[t] = true
				_, err := db.Exec(render(stmts[t]))
				must(err, "create "+t)
			}
		}
	}
	if c.Index {
		switch {
		case has["key_trackers"]:
			_, err := db.Exec(render(stmts["idx_hash"]))
			must(err, "create idx_hash")
		default: // an index of that name can then only sit on another table
			host, col := "", ""
			for _, t := range strings.Fields(v1Tables) {
				if has[t] {
					host = t
					break
				}
			}
			if host == "" {
				host = "verif_other"
				_, err := db.Exec("CREATE TABLE `verif_other` (`x` integer,`y` blob,PRIMARY KEY (`x`))")
				must(err, "create verif_other")
				if c.Rows {
					_, err := db.Exec("INSERT INTO `verif_other` (`x`,`y`) VALUES (1, x'0102'), (2, x'')")
					must(err, "rows verif_other")
				}
			}
			rows, err := db.Query("SELECT name FROM pragma_table_info(?) ORDER BY cid LIMIT 1", host)
			must(err, "table_info")
			for rows.Next() {
				must(rows.Scan(&col), "scan")
			}
			rows.Close()
			_, err = db.Exec(fmt.Sprintf("CREATE INDEX `idx_hash` ON `%s`(`%s`)", host, col))
			must(err, "create foreign idx_hash")
		}
	}
	if c.Rows {
		h := func(k []byte) int64 { return int64(chord.Hash(k)) }
		k := testKeys
		if has["key_trackers"] {
			for i, fl := range []int{1, 2, 4, 7} {
				_, err := db.Exec("INSERT INTO `key_trackers` (`key`,`hash`,`flags`) VALUES (?,?,?)", k[i], h(k[i]), fl)
				must(err, "rows key_trackers")
			}
		}
		if has["simple_entries"] {
			_, err := db.Exec("INSERT INTO `simple_entries` (`key`,`value`) VALUES (?,?),(?,?)", k[0], []byte("v1"), k[3], []byte{0, 255, 4})
			must(err, "rows simple_entries")
		}
		if has["prefix_entries"] {
			_, err := db.Exec("INSERT INTO `prefix_entries` (`prefix`,`child`) VALUES (?,?),(?,?),(?,?)", k[1], []byte("c1"), k[1], []byte("c2"), k[3], []byte("c1"))
			must(err, "rows prefix_entries")
		}
		if has["lease_entries"] {
			_, err := db.Exec("INSERT INTO `lease_entries` (`owner`,`token`) VALUES (?,?),(?,?)", k[2], tokenVal, k[3], tokenVal+1)
			must(err, "rows lease_entries")
		}
	}
	_, err = db.Exec(fmt.Sprintf("PRAGMA user_version = %d", c.UV))
	must(err, "user_version")
}

func enc(v any) string {
	switch x := v.(type) {
	case nil:
		return "null"
	case []byte:
		return "x" + hex.EncodeToString(x)
	case string:
		return "s" + hex.EncodeToString([]byte(x))
	case int64:
		return "i" + strconv.FormatInt(x, 10)
	case float64:
		return "f" + strconv.FormatFloat(x, 'g', -1, 64)
	}
	return fmt.Sprintf("?%v", v)
}

func dumpDB(path string) (d dump) {
	d = dump{Objects: [][]string{}, Cols: map[string][]string{}, IdxCols: map[string][]string{}, Rows: map[string][][]string{}}
	defer func() {
		if r := recover(); r != nil {
			d.Err = fmt.Sprint(r)
		}
	}()
	db, err := sql.Open("sqlite3", dsn(path, false))
	must(err, "open")
	defer db.Close()
	db.SetMaxOpenConns(1)
	must(db.QueryRow("PRAGMA user_version").Scan(&d.UV), "user_version")
	rows, err := db.Query("SELECT type, name, tbl_name, COALESCE(sql, '') FROM sqlite_schema WHERE name NOT LIKE 'sqlite_%' ORDER BY type, name")
	must(err, "schema")
	var tables, indexes []string
	for rows.Next() {
		var ty, name, tbl, sqls string
		must(rows.Scan(&ty, &name, &tbl, &sqls), "scan schema")
		d.Objects = append(d.Objects, []string{ty, name, tbl, sqls})
		if ty == "table" {
			tables = append(tables, name)
		}
		if ty == "index" {
			indexes = append(indexes, name)
			d.IdxCols[name] = []string{tbl}
		}
	}
	must(rows.Err(), "schema rows")
	rows.Close()
	for _, ix := range indexes {
		r, err := db.Query("SELECT COALESCE(name, '') FROM pragma_index_info(?) ORDER BY seqno", ix)
		must(err, "index_info")
		for r.Next() {
			var n string
			must(r.Scan(&n), "scan index_info")
			d.IdxCols[ix] = append(d.IdxCols[ix], n)
		}
		r.Close()
	}
	for _, t := range tables {
		r, err := db.Query("SELECT name FROM pragma_table_info(?) ORDER BY cid", t)
		must(err, "table_info")
		d.Cols[t] = []string{}
		for r.Next() {
			var n string
			must(r.Scan(&n), "scan table_info")
			d.Cols[t] = append(d.Cols[t], n)
		}
		r.Close()
		r, err = db.Query("SELECT * FROM `" + t + "`")
		must(err, "select "+t)
		cols, _ := r.Columns()
		out := [][]string{}
		for r.Next() {
			vals := make([]any, len(cols))
			ptrs := make([]any, len(cols))
			for i := range vals {
				ptrs[i] = &vals[i]
			}
			must(r.Scan(ptrs...), "scan row")
			row := make([]string, len(cols))
			for i, v := range vals {
				row[i] = enc(v)
			}
			out = append(out, row)
		}
		must(r.Err(), "rows "+t)
		r.Close()
		sort.Slice(out, func(a, b int) bool { return strings.Join(out[a], "|") < strings.Join(out[b], "|") })
		d.Rows[t] = out
	}
	return d
}

func fileSum(path string) string {
	b, err := os.ReadFile(path)
	if err != nil {
		return "unreadable"
	}
	s := sha256.Sum256(b)
	return hex.EncodeToString(s[:8])
}

func sortedStrs(in [][]byte) []string {
	out := make([]string, 0, len(in))
	for _, b := range in {
		out = append(out, string(b))
	}
	sort.Strings(out)
	return out
}

func runCase(i int, c soCase) map[string]any {
	dir := filepath.Join(tmpRoot, fmt.Sprintf("db%d", i))
	dbDir := filepath.Join(dir, "sqlite3") // where sqlite3.New looks
	must(os.MkdirAll(dbDir, 0o750), "mkdir")
	defer os.RemoveAll(dir)
	path := filepath.Join(dbDir, "db")
	materialise(path, c)
	out := map[string]any{"latest": latest}
	before := dumpDB(path)
	out["before"] = before
	sum0 := fileSum(path)
	ctx := context.Background()
	var openErr error
	var api map[string]any
	p := verifkit.Recover(func() {
		s, err := sqlite3.New(sqlite3.Config{Logger: zap.NewNop(), HashFn: chord.Hash, DataDir: dir})
		openErr = err
		if err != nil {
			return
		}
		defer s.Close()
		api = map[string]any{}
		vals, err := s.Export(ctx, testKeys)
		if err != nil {
			api["export_err"] = err.Error()
		} else {
			ex := []map[string]any{}
			for k, v := range vals {
				e := map[string]any{"k": string(testKeys[k]), "kids": sortedStrs(v.GetPrefixChildren()), "tok": strconv.FormatUint(v.GetLeaseToken(), 10)}
				if len(v.GetSimpleValue()) > 0 {
					e["simple"] = hex.EncodeToString(v.GetSimpleValue())
				}
				ex = append(ex, e)
			}
			api["export"] = ex
		}
		gets := []string{}
		for _, k := range testKeys {
			v, err := s.Get(ctx, k)
			if err != nil {
				gets = append(gets, "error:"+err.Error())
			} else {
				gets = append(gets, hex.EncodeToString(v))
			}
		}
		api["get"] = gets
		lk, err := s.ListKeys(ctx, nil)
		if err != nil {
			api["listkeys_err"] = err.Error()
		}
		ls := []string{}
		for _, kc := range lk {
			ls = append(ls, string(kc.GetKey())+":"+kc.GetType().String())
		}
		sort.Strings(ls)
		api["listkeys"] = ls
		rk, err := s.RangeKeys(ctx, 0, 0)
		if err != nil {
			api["rangekeys_err"] = err.Error()
		}
		api["rangekeys"] = sortedStrs(rk)
	})
	if p != "" {
		out["panic"] = p
	}
	out["ok"] = openErr == nil && p == ""
	if openErr != nil {
		out["err"] = openErr.Error()
	}
	if api != nil {
		out["api"] = api
	}
	out["after"] = dumpDB(path)
	out["bytes_changed"] = sum0 != fileSum(path)
	return out
}

func main() {
	var err error
	tmpRoot, err = os.MkdirTemp("", "verif-sqlopen-")
	if err != nil {
		panic(err)
	}
	defer os.RemoveAll(tmpRoot)
	cache := os.Getenv("VERIF_WAZERO_CACHE")
	if cache == "" {
		cache = filepath.Join(os.TempDir(), "verif-wazero-cache")
	}
	os.MkdirAll(cache, 0o755)
	if err := sqlite3.Initialize(cache); err != nil {
		panic(err)
	}
	loadStatements()
	if len(os.Args) > 1 && os.Args[1] == "ref" { // the current schema: a database made by the whole first migration
		dir := filepath.Join(tmpRoot, "ref")
		os.MkdirAll(dir, 0o750)
		materialise(filepath.Join(dir, "db"), soCase{Tables: strings.Fields(v1Tables), Index: true, UV: latest, Style: "migration"})
		verifkit.Emit(map[string]any{"ref": dumpDB(filepath.Join(dir, "db")), "latest": latest})
		verifkit.Flush()
		os.RemoveAll(tmpRoot)
		return
	}
	verifkit.EachCase(func(i int, raw json.RawMessage) {
		c := verifkit.Decode[soCase](raw)
		var res map[string]any
		if p := verifkit.Recover(func() { res = runCase(i, c) }); p != "" {
			res = map[string]any{"infra": "panic while materialising / dumping: " + p}
		}
		verifkit.Answer(i, res)
	})
	os.RemoveAll(tmpRoot)
}
