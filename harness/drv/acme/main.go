//go:build verif

// Driver for AcmeNames.tla (C33): concretises abstract hostnames several ways, runs the real acme.Normalize (twice) and
// records code point sequences; samples challenge record targets for token pairs.
package main

import (
	"bytes"
	"encoding/json"
	"hash/fnv"
	"math/rand"
	"net/netip"
	"os"
	"strconv"
	"strings"
	"unicode"

	"go.miragespace.co/specter/internal/verifkit"
	"go.miragespace.co/specter/spec/acme"
)

var (
	lowers  = "abcdefghijklmnopqrstuvwxyz"
	uppers  = "ABCDEFGHIJKLMNOPQRSTUVWXYZ"
	digits  = "0123456789"
	spaces  = []string{" ", "\t", "\n", "\r", "\u00a0", "\u3000", "\u2003", "\u0085"}
	others  = []string{"_", ":", "%", "/", "~", ",", "+", "@", "!", "$", "&", "'", "(", ")", "=", ";", "[", "]", "?", "#", "\\", "\"", "<", ">", "|", "^", "`", "{", "}", "\x00", "\x7f"}
	unis    = []string{"\u00fc", "\u00e9", "\u00df", "\u4f60", "\u597d", "\u00dc", "\uff45", "\u0130", "\u03a3", "\u0431", "\u212a", "\u3002", "\uff0e", "\u200d", "\u00ad"}
	ips     = []string{"8.8.8.8", "1.1.1.1", "203.0.113.7", "255.255.255.255", "100.64.0.1", "192.168.0.1", "10.0.0.1", "127.0.0.1", "172.16.5.4", "169.254.1.1", "0.0.0.0", "2001:db8::1", "::1", "::ffff:1.2.3.4", "fe80::1"}
	locals_ = []string{"localhost", "local", "LOCALHOST", "Local", "localhost", "local"}
)

// strKey derives the random stream from the abstract string itself (not its position): a replayed case is concretised identically
func strKey(parts ...string) int64 {
	h := fnv.New64a()
	h.Write([]byte(strings.Join(parts, ",")))
	return int64(h.Sum64() >> 1)
}

func pick(r *rand.Rand, s string) string { return string(s[r.Intn(len(s))]) }

// variant 0 is the canonical concretisation the abstract transcription in AcmeNames.tla is exact for
func concretise(sym string, variant int, r *rand.Rand) string {
	if variant == 0 {
		switch sym {
		case "lower":
			return "a"
		case "upper":
			return "A"
		case "digit":
			return "7"
		case "space":
			return " "
		case "other":
			return "_"
		case "uni":
			return "\u00fc"
		case "ip":
			return "8.8.8.8"
		case "local":
			return "localhost"
		}
	}
	switch sym {
	case "lower":
		return pick(r, lowers)
	case "upper":
		return pick(r, uppers)
	case "digit":
		return pick(r, digits)
	case "hyphen":
		return "-"
	case "dot":
		return "."
	case "space":
		return spaces[r.Intn(len(spaces))]
	case "star":
		return "*"
	case "other":
		return others[r.Intn(len(others))]
	case "uni":
		return unis[r.Intn(len(unis))]
	case "ip":
		if variant == 1 { // public IPv4 literals
			return ips[r.Intn(5)]
		}
		return ips[r.Intn(len(ips))]
	case "local":
		if variant == 1 {
			return "local"
		}
		return locals_[r.Intn(len(locals_))]
	}
	panic("unknown symbol " + sym)
}

func stripSpace(s string) string {
	var b strings.Builder
	for _, ch := range s {
		if !unicode.IsSpace(ch) {
			b.WriteRune(ch)
		}
	}
	return b.String()
}

// the abstract flags of the statement, computed on the input with white space removed
func isIP(s string) bool {
	_, err := netip.ParseAddr(stripSpace(s))
	return err == nil
}

func isLocal(s string) bool {
	t := strings.ToLower(stripSpace(s))
	return t == "localhost" || strings.HasSuffix(t, ".localhost") || strings.HasSuffix(t, ".local")
}

func cps(s string) []int {
	out := []int{}
	for _, ch := range s {
		out = append(out, int(ch))
	}
	return out
}

type nobs struct {
	In    []int  `json:"in"`
	OK    bool   `json:"ok"`
	Out   []int  `json:"out"`
	OK2   bool   `json:"ok2"`
	Out2  []int  `json:"out2"`
	IP    bool   `json:"ip"`
	Local bool   `json:"local"`
	S     string `json:"s"`   // the input, Go-quoted ASCII (python splits lines on U+0085 etc.)
	O     string `json:"o"`   // the output, readable
	Err   string `json:"err"` // error text (not judged)
}

func normObs(in string) nobs {
	o := nobs{In: cps(in), S: strconv.QuoteToASCII(in), IP: isIP(in), Local: isLocal(in), Out: []int{}, Out2: []int{}}
	if p := verifkit.Recover(func() {
		out, err := acme.Normalize(in)
		if err != nil {
			o.Err = err.Error()
			return
		}
		o.OK = true
		o.O = strconv.QuoteToASCII(out)
		o.Out = cps(out)
		out2, err2 := acme.Normalize(out)
		if err2 == nil {
			o.OK2 = true
			o.Out2 = cps(out2)
		}
	}); p != "" {
		o.Err = "panic: " + p
		// a panic is no rejection: report it as an accepted empty name, which violates Canonical
		o.OK = true
	}
	return o
}

type tobs struct {
	Same bool   `json:"same"`
	T1   string `json:"t1"`
	T2   string `json:"t2"`
	N1   string `json:"n1"`
	N2   string `json:"n2"`
	A    string `json:"a"` // tokens, hex
	B    string `json:"b"`
}

func tokenPair(rel string, r *rand.Rand) ([]byte, []byte) {
	n := 1 + r.Intn(64)
	a := make([]byte, n)
	r.Read(a)
	b := append([]byte{}, a...)
	switch rel {
	case "random":
		b = make([]byte, 1+r.Intn(64))
		r.Read(b)
	case "bitflip":
		b[r.Intn(len(b))] ^= 1 << uint(r.Intn(8))
	case "prefix":
		b = b[:r.Intn(len(b))]
	case "append-zero":
		b = append(b, 0)
	case "case":
		for i := range a {
			a[i] = "abcdefXYZ0189_-"[int(a[i])%15]
		}
		b = []byte(strings.ToUpper(string(a)))
		if bytes.Equal(a, b) {
			b = []byte(strings.ToLower(string(a)))
		}
	case "empty-vs-zero":
		a = []byte{}
		b = make([]byte, 1+r.Intn(4))
	case "reversed":
		for i, j := 0, len(b)-1; i < j; i, j = i+1, j-1 {
			b[i], b[j] = b[j], b[i]
		}
	case "same":
	}
	return a, b
}

func main() {
	variants := 3
	pairs := 200
	if len(os.Args) > 1 {
		variants, _ = strconv.Atoi(os.Args[1])
	}
	if len(os.Args) > 2 {
		pairs, _ = strconv.Atoi(os.Args[2])
	}
	zones := []string{"example.com", "xn--6qq79v.com", "a.b.c.example.org."}
	delegs := []string{"acme.example.net", "d.specter.dev."}
	verifkit.EachCase(func(i int, raw json.RawMessage) {
		c := verifkit.Decode[struct {
			Fam  string
			Strs [][]string
			Rel  string
		}](raw)
		switch c.Fam {
		case "norm":
			// the case packs several abstract strings; answer: per string, per variant
			out := make([][]nobs, len(c.Strs))
			for k, str := range c.Strs {
				out[k] = make([]nobs, variants)
				for v := range out[k] {
					r := rand.New(rand.NewSource(verifkit.Seed()*1000003 + strKey(str...) + int64(v)))
					var b strings.Builder
					for _, sym := range str {
						b.WriteString(concretise(sym, v, r))
					}
					out[k][v] = normObs(b.String())
				}
			}
			verifkit.Answer(i, out)
		case "token":
			out := make([]tobs, pairs)
			r := rand.New(rand.NewSource(verifkit.Seed()*1000003 + strKey("token", c.Rel)))
			for k := range out {
				a, b := tokenPair(c.Rel, r)
				zone, del := zones[r.Intn(len(zones))], delegs[r.Intn(len(delegs))]
				n1, t1 := acme.GenerateCustomRecord(zone, del, a)
				n2, t2 := acme.GenerateCustomRecord(zone, del, b)
				out[k] = tobs{Same: bytes.Equal(a, b), T1: t1, T2: t2, N1: n1, N2: n2,
					A: strconv.QuoteToASCII(string(a)), B: strconv.QuoteToASCII(string(b))}
			}
			verifkit.Answer(i, out)
		}
	})
}
