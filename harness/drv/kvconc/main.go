//go:build verif

// Driver for Trace_KVLin.tla (C18): goroutines race KV operations on ONE store of each backend (memory, append-only log,
// SQLite); every call is stamped from one atomic counter at invocation and at return and recorded with its reply.
//
//	kvconc hist <n> <threads> <opsPerThread>   n seeded random histories per backend (2 fresh keys each) + quiescent final reads
//	kvconc rounds <n> <threads>                barrier rounds: all goroutines do the same conflicting operation at the same instant,
//	                                           on n fresh keys per backend (swept in different orders)
//	kvconc all <n> <threads> <ops> <keys>      both of the above in one process
//	kvconc replay                              scripts from stdin (one history per line: {"backend", "scripts"}), same recording
//
// Optional last argument "memory,aof,sqlite" restricts the backends.
package main

import (
	"context"
	"encoding/json"
	"fmt"
	"math/rand"
	"os"
	"path/filepath"
	"runtime"
	"sort"
	"strconv"
	"strings"
	"sync"
	"sync/atomic"
	"time"

	"go.miragespace.co/specter/internal/verifkit"
	"go.miragespace.co/specter/kv/aof"
	"go.miragespace.co/specter/kv/memory"
	"go.miragespace.co/specter/kv/sqlite3"
	"go.miragespace.co/specter/spec/chord"

	"go.uber.org/zap"
)

type call struct {
	M   string `json:"m"`             // put delete get append remove contains list acquire renew release lget
	K   int    `json:"k"`             // key 1 | 2
	V   string `json:"v,omitempty"`   // put
	C   string `json:"c,omitempty"`   // append remove contains
	Tok string `json:"tok,omitempty"` // renew release: "last" = latest token granted on this key as far as this goroutine can know, "forged"
}

type ev struct {
	Seq uint64   `json:"seq"`
	E   string   `json:"e"` // inv | ret
	T   int      `json:"t"`
	Op  *call    `json:"op,omitempty"`
	Arg uint64   `json:"arg,omitempty"` // inv of renew / release: the token passed
	R   string   `json:"r,omitempty"`   // ret: ok | prefix-conflict | simple-conflict | lease-conflict | lease-expired | error:...
	V   string   `json:"v"`             // ret of get
	B   bool     `json:"b"`             // ret of contains
	L   []string `json:"l"`             // ret of list
	Tok uint64   `json:"tok"`           // ret of acquire / renew / lget
}

var ctx = context.Background()

func errName(err error) string {
	switch {
	case err == nil:
		return "ok"
	case err == chord.ErrKVPrefixConflict:
		return "prefix-conflict"
	case err == chord.ErrKVSimpleConflict:
		return "simple-conflict"
	case err == chord.ErrKVLeaseConflict:
		return "lease-conflict"
	case err == chord.ErrKVLeaseExpired:
		return "lease-expired"
	case err == chord.ErrKVLeaseInvalidTTL:
		return "invalid-ttl"
	}
	return "error:" + err.Error()
}

type backend struct {
	name  string
	kv    chord.KVProvider
	close func()
}

func open(name, root string) backend {
	dir := filepath.Join(root, name)
	switch name {
	case "memory":
		return backend{name, memory.WithHashFn(chord.Hash), func() {}}
	case "aof":
		os.MkdirAll(dir, 0o755)
		a, err := aof.New(aof.Config{Logger: zap.NewNop(), HasnFn: chord.Hash, DataDir: dir, FlushInterval: time.Hour})
		if err != nil {
			panic(err)
		}
		go a.Start()
		return backend{name, a, a.Stop}
	case "sqlite":
		os.MkdirAll(dir, 0o755)
		s, err := sqlite3.New(sqlite3.Config{Logger: zap.NewNop(), HashFn: chord.Hash, DataDir: dir})
		if err != nil {
			panic(err)
		}
		return backend{name, s, s.Close}
	}
	panic("backend " + name)
}

// one history: scripts[t] is the sequence of calls of goroutine t+1; afterwards goroutine 1 reads everything back
type history struct {
	b       backend
	keys    [2][]byte
	seq     *atomic.Uint64
	last    [2]atomic.Uint64 // latest token granted per key (published after the granting call returned)
	evs     [][]ev
}

func (h *history) do(t int, n int, c call) {
	key := append([]byte(nil), h.keys[c.K-1]...) // fresh slices: the log backend keeps references until the call returns
	kv := h.b.kv
	var arg uint64
	if c.M == "renew" || c.M == "release" {
		arg = h.last[c.K-1].Load()
		if c.Tok == "forged" || arg == 0 {
			arg = 987654321
		}
	}
	ttl := time.Duration(1000+16*t+n) * time.Second // distinct per call: distinct tokens
	cc := c
	in := ev{E: "inv", T: t, Op: &cc, Arg: arg}
	out := ev{E: "ret", T: t}
	in.Seq = h.seq.Add(1)
	switch c.M {
	case "put":
		out.R = errName(kv.Put(ctx, key, []byte(c.V)))
	case "delete":
		out.R = errName(kv.Delete(ctx, key))
	case "get":
		v, err := kv.Get(ctx, key)
		out.R, out.V = errName(err), string(v)
	case "append":
		out.R = errName(kv.PrefixAppend(ctx, key, []byte(c.C)))
	case "remove":
		out.R = errName(kv.PrefixRemove(ctx, key, []byte(c.C)))
	case "contains":
		b, err := kv.PrefixContains(ctx, key, []byte(c.C))
		out.R, out.B = errName(err), b
	case "list":
		l, err := kv.PrefixList(ctx, key)
		out.R = errName(err)
		for _, x := range l {
			out.L = append(out.L, string(x))
		}
		sort.Strings(out.L)
	case "acquire":
		tok, err := kv.Acquire(ctx, key, ttl)
		out.R, out.Tok = errName(err), tok
	case "renew":
		tok, err := kv.Renew(ctx, key, ttl, arg)
		out.R, out.Tok = errName(err), tok
	case "release":
		out.R = errName(kv.Release(ctx, key, arg))
	case "lget":
		x, err := kv.Export(ctx, [][]byte{key})
		out.R = errName(err)
		if err == nil {
			out.Tok = x[0].GetLeaseToken()
		}
	default:
		panic("call " + c.M)
	}
	out.Seq = h.seq.Add(1)
	if (c.M == "acquire" || c.M == "renew") && out.R == "ok" {
		h.last[c.K-1].Store(out.Tok)
	}
	if out.L == nil {
		out.L = []string{}
	}
	h.evs[t] = append(h.evs[t], in, out)
	progress.Add(1)
}

var nHist int
var current atomic.Value // name of the backend in use

func barrierStart(threads int, body func(t int)) {
	var ready, start atomic.Int32
	var wg sync.WaitGroup
	for t := 1; t <= threads; t++ {
		wg.Add(1)
		go func(t int) {
			defer wg.Done()
			ready.Add(1)
			// mostly spin (yield now and then: the machine is shared) so that all goroutines leave the barrier within
			// nanoseconds of each other: a memory-backend call lasts about 100 ns
			for spins := 1; start.Load() == 0; spins++ {
				if spins%512 == 0 {
					runtime.Gosched()
				}
			}
			body(t)
		}(t)
	}
	for int(ready.Load()) < threads {
		runtime.Gosched()
	}
	for i := 0; i < 200; i++ { // give the last arrival time to reach its spin loop
		_ = start.Load()
	}
	start.Store(1)
	wg.Wait()
}

func newHistory(b backend, threads int, seq *atomic.Uint64) *history {
	nHist++
	h := &history{b: b, evs: make([][]ev, threads+1), seq: seq}
	h.keys[0] = []byte(fmt.Sprintf("h%da", nHist))
	h.keys[1] = []byte(fmt.Sprintf("h%db", nHist))
	return h
}

// quiescent final reads by goroutine 1 (every part of the keys), then the record
func (h *history) finish(scripts [][]call, kind string, nkeys int, extra map[string]any) map[string]any {
	n := 100
	for k := 1; k <= nkeys; k++ {
		for _, c := range []call{{M: "get", K: k}, {M: "list", K: k}, {M: "lget", K: k}} {
			h.do(1, n, c)
			n++
		}
	}
	var all []ev
	for _, e := range h.evs {
		all = append(all, e...)
	}
	sort.Slice(all, func(i, j int) bool { return all[i].Seq < all[j].Seq })
	rec := map[string]any{"backend": h.b.name, "threads": len(scripts), "kind": kind, "scripts": scripts, "events": all}
	for k, v := range extra {
		rec[k] = v
	}
	return rec
}

func overlapping(rec map[string]any) bool {
	depth := 0
	for _, e := range rec["events"].([]ev) {
		if e.E == "inv" {
			depth++
			if depth > 1 {
				return true
			}
		} else {
			depth--
		}
	}
	return false
}

// callers that stop waiting: mutations on keys of their own whose context ends before or during the call.  They are not part of
// any recorded history (their keys are never used again); what is judged is that the histories recorded afterwards on the same
// store are still linearizable, i.e. that an abandoned call leaves nothing behind in the store's shared machinery.
func abandon(b backend, round int) {
	key := []byte(fmt.Sprintf("x%da", round))
	b.kv.PrefixAppend(ctx, key, []byte("c1"))
	busy.Add(1)
	defer busy.Add(-1)
	// exactly one abandoned call: the reply nobody waits for would be a conflict
	cctx, cancel := context.WithCancel(ctx)
	if round%2 == 0 {
		cancel() // ended before the call
	} else {
		go func(spin int) { // ends while the call runs
			for i := 0; i < spin*300; i++ {
				_ = i
			}
			cancel()
		}(round % 7)
	}
	b.kv.PrefixAppend(cctx, key, []byte("c1"))
	cancel()
	progress.Add(1)
}

// watchdog: a call that does not return is not a reply the specification could judge, but the histories completed before it are.
// When nothing returns for 20 s while calls are outstanding, everything recorded so far is flushed with a "hung" mark and the
// driver ends.
var progress, busy atomic.Int64

func watchdog(names func() string) {
	last, since := int64(-1), time.Now()
	for {
		time.Sleep(500 * time.Millisecond)
		p := progress.Load()
		if p != last || busy.Load() == 0 {
			last, since = p, time.Now()
			continue
		}
		if time.Since(since) > 20*time.Second {
			verifkit.Emit(map[string]any{"stat": "hung", "backend": names()})
			verifkit.Flush()
			os.Exit(0)
		}
	}
}

// restart (C21): concurrent writers on the append-only-log store (histories of conflicting appends, puts and removals from several
// goroutines: the writer loop sees several mutations waiting at once, rejected ones among them), then a clean Stop, reopen, and the
// same reads again.  The content before the stop must equal the content after the reopen.
func runRestart(root string, rounds, threads int) {
	dir := filepath.Join(root, "aofrestart")
	os.MkdirAll(dir, 0o755)
	openStore := func() (*aof.DiskKV, error) {
		a, err := aof.New(aof.Config{Logger: zap.NewNop(), HasnFn: chord.Hash, DataDir: dir, FlushInterval: time.Hour})
		if err != nil {
			return nil, err
		}
		go a.Start()
		return a, nil
	}
	a, err := openStore()
	if err != nil {
		panic(err)
	}
	r := verifkit.Rand(21)
	var keys [][]byte
	read := func(kv chord.KVProvider) map[string]any {
		out := map[string]any{}
		for _, k := range keys {
			v, _ := kv.Get(ctx, k)
			ch, _ := kv.PrefixList(ctx, k)
			l := []string{}
			for _, c := range ch {
				l = append(l, string(c))
			}
			sort.Strings(l)
			out[string(k)] = map[string]any{"v": string(v), "kids": l}
		}
		return out
	}
	for rd := 0; rd < rounds; rd++ {
		b := backend{"aof", a, a.Stop}
		current.Store("aof")
		for hN := 0; hN < 8; hN++ {
			var scripts [][]call
			for t := 0; t < threads; t++ {
				var sc []call
				for n := 0; n < 4; n++ {
					k := 1 + r.Intn(2)
					switch r.Intn(5) {
					case 0, 1:
						sc = append(sc, call{M: "append", K: k, C: kids[r.Intn(len(kids))]}) // the same child from several goroutines: all but one are rejected
					case 2:
						sc = append(sc, call{M: "put", K: k, V: vals[r.Intn(len(vals))]})
					case 3:
						sc = append(sc, call{M: "remove", K: k, C: kids[r.Intn(len(kids))]})
					default:
						sc = append(sc, call{M: "delete", K: k})
					}
				}
				scripts = append(scripts, sc)
			}
			busy.Add(1)
			h := newHistory(b, len(scripts), new(atomic.Uint64))
			keys = append(keys, h.keys[0], h.keys[1])
			barrierStart(len(scripts), func(t int) {
				for n, c := range scripts[t-1] {
					h.do(t, n, c)
				}
			})
			busy.Add(-1)
		}
		pre := read(a)
		a.Stop()
		a2, err := openStore()
		if err != nil {
			verifkit.Emit(map[string]any{"restart": rd, "reopen_err": err.Error(), "keys": len(keys)})
			return
		}
		a = a2
		verifkit.Emit(map[string]any{"restart": rd, "pre": pre, "post": read(a), "keys": len(keys)})
	}
	a.Stop()
}

// one history on two fresh keys
func run(b backend, scripts [][]call, kind string, extra map[string]any) {
	current.Store(b.name)
	busy.Add(1)
	defer busy.Add(-1)
	h := newHistory(b, len(scripts), new(atomic.Uint64))
	barrierStart(len(scripts), func(t int) {
		for n, c := range scripts[t-1] {
			h.do(t, n, c)
		}
	})
	verifkit.Emit(h.finish(scripts, kind, 2, extra))
}

// sweep: the same scripts (key 1 only) on R fresh keys, one after the other; before every key the goroutines meet at a spin
// barrier of their own, so they start their calls on that key within a cache-line transfer of each other (a memory-backend
// call lasts about 100 ns: without this the calls of different goroutines hardly ever overlap).  The keys are independent
// objects, so every key is one history (stamps from one counter for the whole sweep).  Histories with overlapping calls and
// every 16th other one are emitted.
func sweep(b backend, scripts [][]call, kind string, R int) (emitted, total int) {
	current.Store(b.name)
	busy.Add(1)
	defer busy.Add(-1)
	threads := len(scripts)
	seq := new(atomic.Uint64)
	hs := make([]*history, R)
	for j := range hs {
		hs[j] = newHistory(b, threads, seq)
	}
	arrive := make([]atomic.Int32, R)
	barrierStart(threads, func(t int) {
		for j := 0; j < R; j++ {
			arrive[j].Add(1)
			for spins := 1; int(arrive[j].Load()) < threads; spins++ {
				if spins%2048 == 0 {
					runtime.Gosched()
				}
			}
			for n, c := range scripts[t-1] {
				hs[j].do(t, n, c)
			}
		}
	})
	for j, h := range hs {
		rec := h.finish(scripts, kind, 1, nil)
		if overlapping(rec) || j%16 == 0 {
			verifkit.Emit(rec)
			emitted++
		}
	}
	return emitted, R
}

var vals = []string{"v1", "v2", "v3", "v4"}
var kids = []string{"c1", "c2"}

// random scripts; a theme concentrates the calls so that they really conflict
func randomScripts(r *rand.Rand, threads, opsPer int) ([][]call, string) {
	theme := []string{"simple", "prefix", "lease", "mixed", "mixed"}[r.Intn(5)]
	oneKey := r.Intn(2) == 0
	pick := func() call {
		k := 1 + r.Intn(2)
		if oneKey {
			k = 1
		}
		th := theme
		if th == "mixed" {
			th = []string{"simple", "prefix", "lease"}[r.Intn(3)]
		}
		switch th {
		case "simple":
			switch x := r.Intn(10); {
			case x < 5:
				return call{M: "put", K: k, V: vals[r.Intn(len(vals))]}
			case x < 7:
				return call{M: "delete", K: k}
			default:
				return call{M: "get", K: k}
			}
		case "prefix":
			c := kids[r.Intn(len(kids))]
			switch x := r.Intn(10); {
			case x < 5:
				return call{M: "append", K: k, C: c}
			case x < 7:
				return call{M: "remove", K: k, C: c}
			case x < 9:
				return call{M: "contains", K: k, C: c}
			default:
				return call{M: "list", K: k}
			}
		default:
			switch x := r.Intn(10); {
			case x < 5:
				return call{M: "acquire", K: k}
			case x < 7:
				return call{M: "release", K: k, Tok: "last"}
			case x < 8:
				return call{M: "renew", K: k, Tok: "last"}
			case x < 9:
				return call{M: "release", K: k, Tok: "forged"}
			default:
				return call{M: "lget", K: k}
			}
		}
	}
	scripts := make([][]call, threads)
	for t := range scripts {
		for n := 0; n < opsPer; n++ {
			scripts[t] = append(scripts[t], pick())
		}
	}
	return scripts, theme
}

// barrier rounds on fresh keys
func roundScripts(kind string, threads int) [][]call {
	s := make([][]call, threads)
	for t := range s {
		switch kind {
		case "append-same": // exactly one wins
			s[t] = []call{{M: "append", K: 1, C: "c1"}}
		case "acquire-free": // exactly one wins
			s[t] = []call{{M: "acquire", K: 1}}
		case "put-get": // a goroutine reads back at least its own acknowledged write
			s[t] = []call{{M: "put", K: 1, V: vals[t%len(vals)]}, {M: "get", K: 1}}
		case "append-distinct": // no acknowledged append is lost
			s[t] = []call{{M: "append", K: 1 + (t/2)%2, C: kids[t%2]}, {M: "contains", K: 1 + (t/2)%2, C: kids[t%2]}}
		case "acquire-release": // winner releases, a loser may then win: still one holder at a time
			s[t] = []call{{M: "acquire", K: 1}, {M: "release", K: 1, Tok: "last"}, {M: "acquire", K: 1}}
		}
	}
	return s
}

var roundKinds = []string{"append-same", "acquire-free", "put-get", "append-distinct", "acquire-release"}

func main() {
	cache := os.Getenv("VERIF_WAZERO_CACHE")
	if cache == "" {
		cache = filepath.Join(os.TempDir(), "verif-wazero-cache")
	}
	os.MkdirAll(cache, 0o755)
	if err := sqlite3.Initialize(cache); err != nil {
		panic(err)
	}
	root, err := os.MkdirTemp("", "verif-kvconc-")
	if err != nil {
		panic(err)
	}
	defer func() {
		os.RemoveAll(root)
		if p := recover(); p != nil {
			fmt.Fprintf(os.Stderr, "kvconc: panic: %v\n", p)
			os.Exit(2)
		}
	}()
	names := []string{"memory", "aof", "sqlite"}
	mode := os.Args[1]
	rest := os.Args[2:]
	if len(rest) > 0 && strings.Trim(rest[len(rest)-1], "0123456789") != "" { // a backend list
		names = strings.Split(rest[len(rest)-1], ",")
		rest = rest[:len(rest)-1]
	}
	bs := map[string]backend{}
	for _, n := range names {
		bs[n] = open(n, root)
	}
	defer func() {
		for _, b := range bs {
			b.close()
		}
	}()
	atoi := func(i int) int { n, _ := strconv.Atoi(rest[i]); return n }
	current.Store("")
	go watchdog(func() string { return current.Load().(string) })
	hist := func(n, threads, opsPer int) {
		for _, name := range names {
			r := verifkit.Rand(18) // the same scripts on every backend
			for i := 0; i < n; i++ {
				th := threads
				if i%3 == 2 && threads > 3 {
					th = 3
				}
				s, theme := randomScripts(r, th, opsPer)
				if i%3 == 1 {
					abandon(bs[name], i)
					theme += "-after-abandoned-calls"
				}
				run(bs[name], s, "random-"+theme, nil)
			}
		}
	}
	rounds := func(n, threads int) { // n = number of keys swept on the memory backend
		for _, name := range names {
			R, m := 512, n
			if name != "memory" { // a logged mutation or a write transaction costs far more than a compare-and-swap, and calls overlap anyway
				R, m = 64, n/8
			}
			em, tot := 0, 0
			for i := 0; tot < m; i++ {
				kind := roundKinds[i%len(roundKinds)]
				e, t := sweep(bs[name], roundScripts(kind, threads), "round-"+kind, R)
				em, tot = em+e, tot+t
			}
			verifkit.Emit(map[string]any{"stat": "rounds", "backend": name, "keys": tot, "emitted": em})
		}
	}
	switch mode {
	case "hist":
		hist(atoi(0), atoi(1), atoi(2))
	case "rounds":
		rounds(atoi(0), atoi(1))
	case "all": // all <histories> <threads> <opsPerThread> <round keys>
		hist(atoi(0), atoi(1), atoi(2))
		rounds(atoi(3), atoi(1))
	case "restart": // restart <stop/reopen cycles> <goroutines>: append-only-log store only
		runRestart(root, atoi(0), atoi(1))
	case "sched": // sched <random cases> <max schedules per case>: memory backend only
		runSched(atoi(0), atoi(1))
	case "schedreplay":
		verifkit.EachCase(func(i int, raw json.RawMessage) {
			c := verifkit.Decode[struct {
				Setup    []call   `json:"setup"`
				Scripts  [][]call `json:"scripts"`
				Kind     string   `json:"kind"`
				Schedule []int    `json:"schedule"`
			}](raw)
			rec, _, _ := runSchedule(c.Setup, c.Scripts, c.Schedule, c.Kind)
			verifkit.Emit(rec)
		})
	case "replay":
		verifkit.EachCase(func(i int, raw json.RawMessage) {
			c := verifkit.Decode[struct {
				Backend string   `json:"backend"`
				Scripts [][]call `json:"scripts"`
				Kind    string   `json:"kind"`
			}](raw)
			b, ok := bs[c.Backend]
			if !ok {
				panic("backend " + c.Backend)
			}
			// the schedule is not reproducible, the scripts are: repeat them
			oneKey := true
			for _, sc := range c.Scripts {
				for _, x := range sc {
					oneKey = oneKey && x.K == 1
				}
			}
			if oneKey {
				for rep := 0; rep < 8; rep++ {
					sweep(b, c.Scripts, c.Kind, 512)
				}
			}
			for rep := 0; rep < 200; rep++ {
				if strings.Contains(c.Kind, "after-abandoned-calls") && rep%3 == 0 {
					abandon(b, 1000+rep)
				}
				run(b, c.Scripts, c.Kind, map[string]any{"i": i})
			}
		})
	default:
		panic("mode " + mode)
	}
	verifkit.Flush()
}
