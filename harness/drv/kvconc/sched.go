//go:build verif

package main

import (
	"bytes"
	"runtime"
	"strconv"
	"sync"
	"sync/atomic"

	"go.miragespace.co/specter/internal/verifkit"
	"go.miragespace.co/specter/kv/memory"
	"go.miragespace.co/specter/spec/chord"
)

// kvconc sched: systematic schedules on the in-memory backend.  The store is built with a hash function that is also a
// scheduling point: a goroutine of the history parks before each of its calls and at every call of the hash function
// after the first one inside a call (the first one is fetchVal at the very start of every operation; any further one is
// a point INSIDE an operation where another goroutine may run).  The controller releases one goroutine at a time, so a
// run is determined by its schedule; all schedules of a case are enumerated depth-first (bounded).  Every run is recorded
// like the racing histories and judged by Trace_KVLin.

type sthread struct {
	parked    chan struct{}
	resume    chan struct{}
	done      chan struct{}
	hashCalls int
}

type hashGate struct {
	mu  sync.Mutex
	by  map[int64]*sthread
	off atomic.Bool
}

func goid() int64 {
	var buf [64]byte
	n := runtime.Stack(buf[:], false)
	f := bytes.Fields(buf[:n])
	id, _ := strconv.ParseInt(string(f[1]), 10, 64)
	return id
}

func (g *hashGate) hash(key []byte) uint64 {
	if !g.off.Load() {
		g.mu.Lock()
		th := g.by[goid()]
		g.mu.Unlock()
		if th != nil {
			th.hashCalls++
			if th.hashCalls > 1 {
				th.park()
			}
		}
	}
	return chord.Hash(key)
}

func (t *sthread) park() {
	t.parked <- struct{}{}
	<-t.resume
}

// runSchedule executes the scripts under the schedule prefix (thread numbers); beyond the prefix the lowest parked thread
// runs.  Returns the record, the schedule taken and, per decision, the set of threads that could have been chosen.
func runSchedule(setup []call, scripts [][]call, prefix []int, kind string) (map[string]any, []int, [][]int) {
	g := &hashGate{by: map[int64]*sthread{}}
	b := backend{"memory", memory.WithHashFn(g.hash), func() {}}
	h := newHistory(b, len(scripts), new(atomic.Uint64))
	g.off.Store(true)
	for n, c := range setup { // the state the race starts from, by goroutine 1, before anybody else
		h.do(1, 200+n, c)
	}
	g.off.Store(false)
	ths := make([]*sthread, len(scripts))
	for t := range scripts {
		th := &sthread{parked: make(chan struct{}), resume: make(chan struct{}), done: make(chan struct{})}
		ths[t] = th
		ready := make(chan struct{})
		go func(t int) {
			g.mu.Lock()
			g.by[goid()] = th
			g.mu.Unlock()
			close(ready)
			for n, c := range scripts[t] {
				th.park() // the call starts when the schedule says so
				th.hashCalls = 0
				h.do(t+1, n, c)
			}
			close(th.done)
		}(t)
		<-ready
	}
	state := make([]int, len(scripts)) // 0 running, 1 parked, 2 done
	settle := func(t int) {
		select {
		case <-ths[t].parked:
			state[t] = 1
		case <-ths[t].done:
			state[t] = 2
		}
	}
	for t := range ths {
		settle(t)
	}
	var taken []int
	var enabled [][]int
	for {
		var en []int
		for t, s := range state {
			if s == 1 {
				en = append(en, t)
			}
		}
		if len(en) == 0 {
			break
		}
		pick := en[0]
		if len(taken) < len(prefix) {
			pick = prefix[len(taken)]
			ok := false
			for _, e := range en {
				ok = ok || e == pick
			}
			if !ok { // a schedule recorded on another tree (a replay): follow it as far as it applies
				pick = en[0]
			}
		}
		taken = append(taken, pick)
		enabled = append(enabled, en)
		state[pick] = 0
		ths[pick].resume <- struct{}{}
		settle(pick)
	}
	g.off.Store(true)
	rec := h.finish(scripts, kind, 2, map[string]any{"schedule": taken, "setup": setup})
	return rec, taken, enabled
}

// allSchedules: depth-first over the decisions, at most max runs
func allSchedules(setup []call, scripts [][]call, kind string, max int) (runs int) {
	var prefix []int
	for runs < max {
		rec, taken, enabled := runSchedule(setup, scripts, prefix, kind)
		runs++
		verifkit.Emit(rec)
		// next prefix: the deepest decision with an untried alternative (alternatives in increasing thread order)
		next := -1
		for d := len(taken) - 1; d >= 0 && next < 0; d-- {
			for _, e := range enabled[d] {
				if e > taken[d] {
					prefix = append(append([]int{}, taken[:d]...), e)
					next = d
					break
				}
			}
		}
		if next < 0 {
			break
		}
	}
	return runs
}

// directed cases: an operation that empties a key racing with operations that use it again
func directedCases() (out []struct {
	Kind    string
	Setup   []call
	Scripts [][]call
}) {
	add := func(kind string, setup []call, scripts ...[]call) {
		out = append(out, struct {
			Kind    string
			Setup   []call
			Scripts [][]call
		}{kind, setup, scripts})
	}
	put0 := []call{{M: "put", K: 1, V: "v1"}}
	add("delete|get-put-get", put0, []call{{M: "delete", K: 1}}, []call{{M: "get", K: 1}, {M: "put", K: 1, V: "v2"}, {M: "get", K: 1}})
	add("delete|get-append-append", put0, []call{{M: "delete", K: 1}}, []call{{M: "get", K: 1}, {M: "append", K: 1, C: "c1"}, {M: "append", K: 1, C: "c1"}, {M: "contains", K: 1, C: "c1"}})
	add("delete|get-acquire-acquire", put0, []call{{M: "delete", K: 1}}, []call{{M: "get", K: 1}, {M: "acquire", K: 1}, {M: "acquire", K: 1}, {M: "renew", K: 1, Tok: "last"}})
	add("remove|contains-put-get", []call{{M: "append", K: 1, C: "c1"}}, []call{{M: "remove", K: 1, C: "c1"}}, []call{{M: "contains", K: 1, C: "c1"}, {M: "put", K: 1, V: "v2"}, {M: "get", K: 1}})
	add("remove|contains-append-contains", []call{{M: "append", K: 1, C: "c1"}}, []call{{M: "remove", K: 1, C: "c1"}}, []call{{M: "contains", K: 1, C: "c1"}, {M: "append", K: 1, C: "c2"}, {M: "contains", K: 1, C: "c2"}})
	add("release|lget-put-get", []call{{M: "acquire", K: 1}}, []call{{M: "release", K: 1, Tok: "last"}}, []call{{M: "lget", K: 1}, {M: "put", K: 1, V: "v2"}, {M: "get", K: 1}})
	add("release|lget-acquire-acquire", []call{{M: "acquire", K: 1}}, []call{{M: "release", K: 1, Tok: "last"}}, []call{{M: "lget", K: 1}, {M: "acquire", K: 1}, {M: "acquire", K: 1}})
	add("delete|delete|put-get", put0, []call{{M: "delete", K: 1}}, []call{{M: "delete", K: 1}}, []call{{M: "put", K: 1, V: "v3"}, {M: "get", K: 1}})
	add("put-delete|put-delete", nil, []call{{M: "put", K: 1, V: "v1"}, {M: "delete", K: 1}, {M: "get", K: 1}}, []call{{M: "put", K: 1, V: "v2"}, {M: "delete", K: 1}, {M: "get", K: 1}})
	return out
}

func runSched(nRandom, maxPer int) {
	total := 0
	for _, c := range directedCases() {
		total += allSchedules(c.Setup, c.Scripts, "sched-"+c.Kind, maxPer)
	}
	r := verifkit.Rand(1818)
	for i := 0; i < nRandom; i++ {
		threads := 2 + i%2
		s, theme := randomScripts(r, threads, 4-threads+1)
		for t := range s { // one key: the schedules are about one object
			for n := range s[t] {
				s[t][n].K = 1
			}
		}
		var setup []call
		switch i % 4 {
		case 1:
			setup = []call{{M: "put", K: 1, V: "v4"}}
		case 2:
			setup = []call{{M: "append", K: 1, C: "c2"}}
		}
		total += allSchedules(setup, s, "sched-random-"+theme, maxPer)
	}
	verifkit.Emit(map[string]any{"stat": "sched", "runs": total})
}
