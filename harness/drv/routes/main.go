//go:build verif

// Driver for Routes.tla (C27, C28): replays TLC-enumerated cases into the real route cache loader and the
// real DialClient/getConn/handleProxyConn of tun/server.  The DHT is a scripted chord.KV (per-key value or
// error), the transports are scripted per client / per remote node, the remote node of a proxied route is a
// second real Server whose handleProxyConn answers over an in-memory pipe, and every tunnel client is played
// by a goroutine that records the link frame and the bytes it receives.
package main

import (
	"context"
	"errors"
	"fmt"
	"io"
	"net"
	"os"
	"sort"
	"strings"
	"sync"
	"time"

	"encoding/json"

	"go.miragespace.co/specter/internal/verifkit"
	"go.miragespace.co/specter/spec/chord"
	"go.miragespace.co/specter/spec/protocol"
	"go.miragespace.co/specter/spec/rpc"
	"go.miragespace.co/specter/spec/transport"
	"go.miragespace.co/specter/spec/tun"
	"go.miragespace.co/specter/tun/server"

	"go.uber.org/zap"
)

// ---------------------------------------------------------------- scripted DHT

type kvEntry struct {
	val []byte
	err error
}

type kvStub struct {
	chord.VNode // nil: any other method panics (none is used by the code under test)
	mu          sync.Mutex
	m           map[string]kvEntry
	gets        int
}

func (k *kvStub) Get(ctx context.Context, key []byte) ([]byte, error) {
	k.mu.Lock()
	defer k.mu.Unlock()
	k.gets++
	e, ok := k.m[string(key)]
	if !ok {
		return nil, nil
	}
	return e.val, e.err
}

func (k *kvStub) set(key string, e kvEntry) {
	k.mu.Lock()
	k.m[key] = e
	k.mu.Unlock()
}

// ---------------------------------------------------------------- scripted transports

type tpStub struct {
	transport.Transport // nil
	id                  *protocol.Node
	dial                func(ctx context.Context, peer *protocol.Node, kind protocol.Stream_Type) (net.Conn, error)
}

func (t *tpStub) Identity() *protocol.Node { return t.id }
func (t *tpStub) DialStream(ctx context.Context, peer *protocol.Node, kind protocol.Stream_Type) (net.Conn, error) {
	return t.dial(ctx, peer, kind)
}

// ---------------------------------------------------------------- per-case recorder

type recorder struct {
	mu       sync.Mutex
	attempts []int    // route index (1-based) in the order the first hop towards its client is dialled
	linkTo   []int    // clients that received a link frame
	linkHost []string // the hostname each of those frames carried
	strays   []string // dials that match no route of the case
	nonce    chan int // client that received the probe bytes written to the returned connection
}

type routeScript struct {
	rec     *recorder
	idx     int
	outcome string
	nonceIn []byte
}

var (
	scriptMu sync.Mutex
	byClient = map[uint64]*routeScript{}
	byChord  = map[uint64]*routeScript{}
	curRec   *recorder
)

func lookup(m map[uint64]*routeScript, id uint64) *routeScript {
	scriptMu.Lock()
	defer scriptMu.Unlock()
	return m[id]
}

func stray(what string) {
	scriptMu.Lock()
	r := curRec
	scriptMu.Unlock()
	if r != nil {
		r.mu.Lock()
		r.strays = append(r.strays, what)
		r.mu.Unlock()
	}
}

// the tunnel client at the end of a stream: reads the link frame, then the probe
func playClient(sc *routeScript, c net.Conn) {
	defer c.Close()
	l := &protocol.Link{}
	c.SetReadDeadline(time.Now().Add(5 * time.Second))
	if err := rpc.BoundedReceive(c, l, 1024); err != nil {
		return
	}
	sc.rec.mu.Lock()
	sc.rec.linkTo = append(sc.rec.linkTo, sc.idx)
	sc.rec.linkHost = append(sc.rec.linkHost, l.GetHostname())
	sc.rec.mu.Unlock()
	buf := make([]byte, 8)
	if _, err := io.ReadFull(c, buf); err != nil {
		return
	}
	if string(buf) == string(sc.nonceIn) {
		select {
		case sc.rec.nonce <- sc.idx:
		default:
		}
	}
}

// a client stream opened by a tunnel transport (local node or remote node)
func clientDial(local bool) func(ctx context.Context, peer *protocol.Node, kind protocol.Stream_Type) (net.Conn, error) {
	return func(ctx context.Context, peer *protocol.Node, kind protocol.Stream_Type) (net.Conn, error) {
		sc := lookup(byClient, peer.GetId())
		if sc == nil || kind != protocol.Stream_DIRECT {
			stray(fmt.Sprintf("tunnel dial local=%v peer=%d kind=%s", local, peer.GetId(), kind))
			return nil, errors.New("verif: no such client")
		}
		if local {
			sc.rec.mu.Lock()
			sc.rec.attempts = append(sc.rec.attempts, sc.idx)
			sc.rec.mu.Unlock()
		}
		switch sc.outcome {
		case "Lok", "Rok":
			a, b := net.Pipe()
			go playClient(sc, b)
			return a, nil
		case "Lnd", "Rnd":
			return nil, transport.ErrNoDirect
		case "Lsend":
			a, b := net.Pipe()
			b.Close()
			a.Close()
			return a, nil
		default: // Lerr, Rerr (and anything a wrong path reaches)
			return nil, errors.New("verif: connection refused")
		}
	}
}

const (
	localTunnelAddr  = "tunnel-local.verif:443"
	remoteTunnelAddr = "tunnel-remote.verif:443"
	otherTunnelAddr  = "tunnel-elsewhere.verif:443"
)

type world struct {
	kv     *kvStub
	local  *server.Server
	remote *server.Server
	ctx    context.Context
}

func newWorld() *world {
	w := &world{kv: &kvStub{m: map[string]kvEntry{}}, ctx: context.Background()}
	logger := zap.NewNop()
	t2 := &tpStub{id: &protocol.Node{Id: 2002, Address: remoteTunnelAddr}, dial: clientDial(false)}
	c2 := &tpStub{id: &protocol.Node{Id: 2001, Address: "chord-remote.verif:443"}, dial: func(ctx context.Context, peer *protocol.Node, kind protocol.Stream_Type) (net.Conn, error) {
		stray("remote node dialled chord transport")
		return nil, errors.New("verif: unexpected")
	}}
	w.remote = server.New(server.Config{
		Logger: logger, ParentContext: w.ctx, Chord: &kvStub{m: map[string]kvEntry{}},
		TunnelTransport: t2, ChordTransport: c2, Apex: "example.com", Acme: "acme.example.com",
	})
	t1 := &tpStub{id: &protocol.Node{Id: 1002, Address: localTunnelAddr}, dial: clientDial(true)}
	c1 := &tpStub{id: &protocol.Node{Id: 1001, Address: "chord-local.verif:443"}}
	c1.dial = func(ctx context.Context, peer *protocol.Node, kind protocol.Stream_Type) (net.Conn, error) {
		sc := lookup(byChord, peer.GetId())
		if sc == nil || kind != protocol.Stream_PROXY {
			stray(fmt.Sprintf("chord dial peer=%d kind=%s", peer.GetId(), kind))
			return nil, errors.New("verif: no such node")
		}
		sc.rec.mu.Lock()
		sc.rec.attempts = append(sc.rec.attempts, sc.idx)
		sc.rec.mu.Unlock()
		switch sc.outcome {
		case "Rdial":
			return nil, errors.New("verif: node unreachable")
		case "Rdnd":
			return nil, transport.ErrNoDirect
		}
		a, b := net.Pipe()
		go w.remote.VerifC27HandleProxy(w.ctx, &transport.StreamDelegate{Conn: b, Identity: c1.id, Kind: protocol.Stream_PROXY})
		return a, nil
	}
	w.local = server.New(server.Config{
		Logger: logger, ParentContext: w.ctx, Chord: w.kv,
		TunnelTransport: t1, ChordTransport: c1, Apex: "example.com", Acme: "acme.example.com",
	})
	return w
}

var idSeq uint64 = 1 << 20

func nextID() uint64 { idSeq++; return idSeq }

func mkRoute(host string, local bool, tunnelAddr string) *protocol.TunnelRoute {
	cid := nextID()
	if tunnelAddr == "" {
		tunnelAddr = remoteTunnelAddr
		if local {
			tunnelAddr = localTunnelAddr
		}
	}
	chordAddr := fmt.Sprintf("chord-%d.verif:443", cid)
	if local {
		chordAddr = "chord-local.verif:443"
	}
	return &protocol.TunnelRoute{
		ClientDestination: &protocol.Node{Id: cid, Address: fmt.Sprintf("client-%d", cid), Rendezvous: true},
		ChordDestination:  &protocol.Node{Id: nextID(), Address: chordAddr},
		TunnelDestination: &protocol.Node{Id: nextID(), Address: tunnelAddr},
		Hostname:          host,
	}
}

func must(b []byte, err error) []byte {
	if err != nil {
		panic(err)
	}
	return b
}

func classify(err error) string {
	switch {
	case err == nil:
		return "ok"
	case errors.Is(err, tun.ErrDestinationNotFound):
		return "notfound"
	case errors.Is(err, tun.ErrTunnelClientNotConnected):
		return "notconnected"
	case errors.Is(err, tun.ErrLookupFailed):
		return "lookupfailed"
	default:
		return "error"
	}
}

// ---------------------------------------------------------------- C28: load

func undecodable(variant int, sample []byte) []byte {
	switch variant % 3 {
	case 0:
		return []byte{0xff, 0xff, 0xff, 0xff, 0xff, 0xff, 0xff, 0xff, 0xff, 0xff, 0xff, 0x01}
	case 1:
		return sample[:len(sample)/2] // cut inside a length-delimited field
	default:
		return []byte{0x08, 0x01} // field 1 (a message) with varint wire type
	}
}

func slotError(variant int) error {
	switch variant % 3 {
	case 0:
		return errors.New("verif: kv unavailable")
	case 1:
		return context.DeadlineExceeded
	default:
		return chord.ErrKVStaleOwnership
	}
}

func emptyVal(variant int) []byte {
	if variant%2 == 0 {
		return nil
	}
	return []byte{}
}

func runLoad(w *world) {
	// the undecodable samples must really be undecodable
	sample := must(mkRoute("probe.example.com", true, "").MarshalVT())
	for v := 0; v < 3; v++ {
		if (&protocol.TunnelRoute{}).UnmarshalVT(undecodable(v, sample)) == nil {
			fmt.Fprintf(os.Stderr, "undecodable sample %d decodes\n", v)
			os.Exit(3)
		}
	}
	const variants = 3
	verifkit.EachCase(func(i int, raw json.RawMessage) {
		slots := verifkit.Decode[[]string](raw)
		type obs struct {
			Class   string `json:"class"`
			Routes  []int  `json:"routes"`
			TTLms   int64  `json:"ttl_ms"`
			LoadErr string `json:"load_err"`
			Host    bool   `json:"host_ok"`
			Variant int    `json:"variant"`
		}
		out := make([]obs, 0, variants)
		for v := 0; v < variants; v++ {
			host := fmt.Sprintf("l%d-%d-%d.example.com", verifkit.Seed(), i, v)
			client2slot := map[uint64]int{}
			for k, o := range slots {
				key := tun.RoutingKey(host, k+1)
				switch o {
				case "L", "R":
					r := mkRoute(host, o == "L", "")
					client2slot[r.GetClientDestination().GetId()] = k + 1
					w.kv.set(key, kvEntry{val: must(r.MarshalVT())})
				case "E":
					w.kv.set(key, kvEntry{val: emptyVal(v + k)})
				case "X":
					w.kv.set(key, kvEntry{err: slotError(v + k)})
				case "U":
					w.kv.set(key, kvEntry{val: undecodable(v+k, sample)})
				}
			}
			verr, routes, ttl, lerr := w.local.VerifC28Load(context.Background(), host)
			ob := obs{TTLms: ttl.Milliseconds(), Host: true, Variant: v, Routes: []int{}}
			if lerr != nil {
				ob.LoadErr = lerr.Error()
			}
			switch {
			case verr != nil:
				ob.Class = classify(verr)
				if len(routes) != 0 {
					ob.Class += "+routes"
				}
			default:
				ob.Class = "routes"
			}
			for _, r := range routes {
				s, ok := client2slot[r.GetClientDestination().GetId()]
				if !ok {
					s = -1
				}
				if r.GetHostname() != host {
					ob.Host = false
				}
				ob.Routes = append(ob.Routes, s)
			}
			out = append(out, ob)
		}
		verifkit.Answer(i, out)
	})
}

// ---------------------------------------------------------------- C27: dial

func runDial(w *world) {
	rnd := verifkit.Rand(27)
	deadConns := 0
	verifkit.EachCase(func(i int, raw json.RawMessage) {
		c := verifkit.Decode[struct {
			Lookup string
			Routes []string
		}](raw)
		host := fmt.Sprintf("d%d-%d.example.com", verifkit.Seed(), i)
		rec := &recorder{nonce: make(chan int, 4)}
		nonce := []byte(fmt.Sprintf("%08x", rnd.Uint32()))
		scriptMu.Lock()
		curRec = rec
		byClient = map[uint64]*routeScript{}
		byChord = map[uint64]*routeScript{}
		scriptMu.Unlock()

		// routes occupy a seeded increasing choice of the three slots
		perm := rnd.Perm(3)[:len(c.Routes)]
		sort.Ints(perm)
		used := map[int]bool{}
		for k, o := range c.Routes {
			local := strings.HasPrefix(o, "L")
			addr := ""
			if o == "Rwrong" {
				addr = otherTunnelAddr
			}
			r := mkRoute(host, local, addr)
			sc := &routeScript{rec: rec, idx: k + 1, outcome: o, nonceIn: nonce}
			scriptMu.Lock()
			byClient[r.GetClientDestination().GetId()] = sc
			if !local {
				byChord[r.GetChordDestination().GetId()] = sc
			}
			scriptMu.Unlock()
			w.kv.set(tun.RoutingKey(host, perm[k]+1), kvEntry{val: must(r.MarshalVT())})
			used[perm[k]] = true
		}
		// a decoy: a connected client of the local node that is published for another hostname only
		decoyHost := "decoy-" + host
		dr := mkRoute(decoyHost, true, "")
		scriptMu.Lock()
		byClient[dr.GetClientDestination().GetId()] = &routeScript{rec: rec, idx: 99, outcome: "Lok", nonceIn: nonce}
		scriptMu.Unlock()
		w.kv.set(tun.RoutingKey(decoyHost, 1), kvEntry{val: must(dr.MarshalVT())})
		partialDone := false
		for s := 0; s < 3; s++ {
			if used[s] {
				continue
			}
			key := tun.RoutingKey(host, s+1)
			switch {
			case c.Lookup == "fail":
				w.kv.set(key, kvEntry{err: errors.New("verif: kv unavailable")})
			case c.Lookup == "partial" && !partialDone:
				w.kv.set(key, kvEntry{err: errors.New("verif: kv unavailable")})
				partialDone = true
			default:
				w.kv.set(key, kvEntry{val: emptyVal(s + i)})
			}
		}

		type obs struct {
			Kind     string   `json:"kind"`
			Err      string   `json:"err"`
			Client   int      `json:"client"`
			LinkTo   []int    `json:"link_to"`
			LinkHost []string `json:"link_host"`
			Attempts []int    `json:"attempts"`
			Strays   []string `json:"strays"`
			Host     string   `json:"host"`
			Second   any      `json:"second,omitempty"` // the same connection request once more (route cache warm)
		}
		dialOnce := func() obs {
			link := &protocol.Link{Alpn: protocol.Link_HTTP, Hostname: host, Remote: "192.0.2.7:4242"}
			ctx, cancel := context.WithTimeout(context.Background(), 10*time.Second)
			conn, err := w.local.DialClient(ctx, link)
			ob := obs{Host: host}
			if err != nil {
				ob.Kind = classify(err)
				ob.Err = err.Error()
				if conn != nil {
					ob.Kind += "+conn"
				}
			} else if conn == nil {
				ob.Kind = "nil"
			} else {
				ob.Kind = "conn"
				// a healthy connection delivers the probe at once; after a few dead ones the wait is cut short so
				// that a broken tree cannot stall the run
				wait := 3 * time.Second
				if deadConns >= 5 {
					wait = 150 * time.Millisecond
				}
				conn.SetWriteDeadline(time.Now().Add(wait))
				if _, werr := conn.Write(nonce); werr != nil {
					ob.Err = "probe write: " + werr.Error()
				}
				select {
				case who := <-rec.nonce:
					ob.Client = who
				case <-time.After(wait):
					ob.Client = 0
					deadConns++
				}
			}
			if conn != nil {
				conn.Close()
			}
			cancel()
			rec.mu.Lock()
			ob.LinkTo = append([]int{}, rec.linkTo...)
			ob.LinkHost = append([]string{}, rec.linkHost...)
			ob.Attempts = append([]int{}, rec.attempts...)
			ob.Strays = append([]string{}, rec.strays...)
			rec.mu.Unlock()
			return ob
		}
		ob := dialOnce()
		rec.mu.Lock()
		rec.linkTo, rec.linkHost, rec.attempts, rec.strays = nil, nil, nil, nil
		rec.mu.Unlock()
		second := dialOnce()
		ob.Second = second
		verifkit.Answer(i, ob)
	})
}

func main() {
	w := newWorld()
	switch os.Args[1] {
	case "load":
		runLoad(w)
	case "dial":
		runDial(w)
	default:
		fmt.Fprintln(os.Stderr, "usage: routes load|dial")
		os.Exit(3)
	}
}
