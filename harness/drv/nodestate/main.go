//go:build verif

// Driver for NodeState.tla / Trace_NodeState.tla (C13): goroutines race Transition / Set on the real lifecycle word.
package main

import (
	"encoding/json"
	"math/rand"
	"os"
	"runtime"
	"strconv"
	"sync"
	"sync/atomic"

	implchord "go.miragespace.co/specter/chord"
	"go.miragespace.co/specter/internal/verifkit"
	"go.miragespace.co/specter/spec/chord"
	"go.miragespace.co/specter/util/verifhook"
)

var states = []chord.State{chord.Inactive, chord.Joining, chord.Active, chord.Transferring, chord.Leaving, chord.Left}

type ev struct {
	Seq uint64 `json:"seq"`
	E   string `json:"e"`
	T   int    `json:"t"`
	Op  string `json:"op,omitempty"`
	Exp string `json:"exp,omitempty"`
	Nxt string `json:"nxt,omitempty"`
	Ok  bool   `json:"ok"`
	St  string `json:"st,omitempty"`
}

// rounds: every thread attempts Transition(current, next_t) at the same instant (spin barrier); each round is one history
func rounds(n, threads int) {
	r := verifkit.Rand(9)
	ns := implchord.VerifNewNodeState(chord.Inactive)
	histLen := 1
	for h := 0; h < n; h++ {
		cur := ns.Get()
		var seq atomic.Uint64
		evs := make([][]ev, threads+1)
		var ready, goFlag atomic.Int32
		var wg sync.WaitGroup
		for t := 1; t <= threads; t++ {
			nxt := states[r.Intn(len(states))]
			wg.Add(1)
			go func(t int, nxt chord.State) {
				defer wg.Done()
				ready.Add(1)
				for goFlag.Load() == 0 {
					runtime.Gosched()
				}
				i := seq.Add(1)
				st, ok := ns.Transition(cur, nxt)
				j := seq.Add(1)
				evs[t] = []ev{{Seq: i, E: "inv", T: t, Op: "T", Exp: cur.String(), Nxt: nxt.String()}, {Seq: j, E: "ret", T: t, Ok: ok, St: st.String()}}
			}(t, nxt)
		}
		for int(ready.Load()) < threads {
			runtime.Gosched()
		}
		goFlag.Store(1)
		wg.Wait()
		var all []ev
		for _, e := range evs {
			all = append(all, e...)
		}
		full := ns.History()
		hist := []string{cur.String()}
		for _, s := range full[histLen:] {
			hist = append(hist, s.String())
		}
		histLen = len(full)
		verifkit.Emit(map[string]any{"h": h, "threads": threads, "init": cur.String(), "events": all, "get": ns.Get().String(), "hist": hist, "round": true})
	}
	verifkit.Flush()
}

// replay: TLC behaviours of NodeState.tla executed on the real nodeState through the gates in Transition
type behaviour struct {
	Script map[string][][]string `json:"script"`
	Sched  [][]string            `json:"sched"`
	First  string                `json:"first"` // initial state (default Inactive)
}

type thr struct {
	name string
	cmd  chan struct{}
	ack  chan string
	kind string
	res  [][]any
	done bool
}

func replay() {
	var mu sync.Mutex
	byG := map[int64]*thr{}
	gid := func() int64 {
		var buf [64]byte
		n := runtime.Stack(buf[:], false)
		var id int64
		for _, c := range buf[10:n] {
			if c < '0' || c > '9' {
				break
			}
			id = id*10 + int64(c-'0')
		}
		return id
	}
	park := func(t *thr, point string) {
		t.ack <- point
		<-t.cmd
	}
	verifhook.AtFn = func(point string, _ uint64) {
		mu.Lock()
		t := byG[gid()]
		mu.Unlock()
		if t == nil || (point == "ns:enter" && t.kind == "T") {
			return
		}
		park(t, point)
	}
	verifkit.EachCase(func(i int, raw json.RawMessage) {
		b := verifkit.Decode[behaviour](raw)
		first := "Inactive"
		if b.First != "" {
			first = b.First
		}
		ns := implchord.VerifNewNodeState(parse(first))
		threads := map[string]*thr{}
		for name, script := range b.Script {
			t := &thr{name: name, cmd: make(chan struct{}), ack: make(chan string)}
			threads[name] = t
			go func(t *thr, script [][]string) {
				mu.Lock()
				byG[gid()] = t
				mu.Unlock()
				park(t, "begin")
				for k, call := range script {
					t.kind = call[0]
					if call[0] == "T" {
						st, ok := ns.Transition(parse(call[1]), parse(call[2]))
						t.res = append(t.res, []any{ok, st.String()})
					} else {
						ns.Set(parse(call[1]))
						t.res = append(t.res, []any{true, call[1]})
					}
					if k < len(script)-1 {
						park(t, "next")
					}
				}
				mu.Lock()
				delete(byG, gid())
				mu.Unlock()
				t.done = true
				t.ack <- "done"
			}(t, script)
			<-t.ack
		}
		var trace []string
		stuck := ""
		for _, st := range b.Sched {
			t := threads[st[0]]
			if t.done {
				stuck = "thread " + st[0] + " already finished at step " + st[1]
				break
			}
			t.cmd <- struct{}{}
			p := <-t.ack
			trace = append(trace, st[0]+":"+st[1]+"->"+p)
		}
		// let every thread finish (no more contention)
		for _, t := range threads {
			for !t.done {
				t.cmd <- struct{}{}
				<-t.ack
			}
		}
		res := map[string][][]any{}
		for name, t := range threads {
			res[name] = t.res
		}
		hist := []string{}
		for _, s := range ns.History() {
			hist = append(hist, s.String())
		}
		verifkit.Answer(i, map[string]any{"res": res, "get": ns.Get().String(), "hist": hist, "trace": trace, "stuck": stuck})
	})
}

func parse(s string) chord.State {
	for _, st := range states {
		if st.String() == s {
			return st
		}
	}
	panic("state " + s)
}

func main() {
	if os.Args[1] == "replay" {
		replay()
		return
	}
	if os.Args[1] == "rounds" {
		n, _ := strconv.Atoi(os.Args[2])
		th, _ := strconv.Atoi(os.Args[3])
		rounds(n, th)
		return
	}
	histories, _ := strconv.Atoi(os.Args[1])
	threads, _ := strconv.Atoi(os.Args[2])
	opsPer, _ := strconv.Atoi(os.Args[3])
	r := verifkit.Rand(5)
	for h := 0; h < histories; h++ {
		init := states[r.Intn(3)]
		ns := implchord.VerifNewNodeState(init)
		var seq atomic.Uint64
		var mu sync.Mutex
		var evs []ev
		rec := func(e ev) {
			mu.Lock()
			evs = append(evs, e)
			mu.Unlock()
		}
		// scripts: most attempts expect the same few states so that they really race
		pool := []chord.State{init, states[r.Intn(4)], states[r.Intn(4)]}
		var wg sync.WaitGroup
		var ready, start atomic.Int32
		for t := 1; t <= threads; t++ {
			rr := rand.New(rand.NewSource(r.Int63()))
			wg.Add(1)
			go func(t int) {
				defer wg.Done()
				ready.Add(1)
				for start.Load() == 0 {
					runtime.Gosched()
				}
				for k := 0; k < opsPer; k++ {
					if rr.Intn(3) == 0 {
						val := pool[rr.Intn(len(pool))]
						rec(ev{Seq: seq.Add(1), E: "inv", T: t, Op: "S", Exp: "", Nxt: val.String()})
						ns.Set(val)
						rec(ev{Seq: seq.Add(1), E: "ret", T: t, Ok: true, St: val.String()})
						continue
					}
					exp, nxt := pool[rr.Intn(len(pool))], pool[rr.Intn(len(pool))]
					rec(ev{Seq: seq.Add(1), E: "inv", T: t, Op: "T", Exp: exp.String(), Nxt: nxt.String()})
					st, ok := ns.Transition(exp, nxt)
					rec(ev{Seq: seq.Add(1), E: "ret", T: t, Ok: ok, St: st.String()})
				}
			}(t)
		}
		for int(ready.Load()) < threads {
			runtime.Gosched()
		}
		start.Store(1)
		wg.Wait()
		hist := []string{}
		for _, s := range ns.History() {
			hist = append(hist, s.String())
		}
		verifkit.Emit(map[string]any{"h": h, "threads": threads, "init": init.String(), "events": evs, "get": ns.Get().String(), "hist": hist})
	}
	verifkit.Flush()
}
