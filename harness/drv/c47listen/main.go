//go:build verif

// Driver for Listen.tla (C47): every TLC-enumerated pair of token lists is turned into several concrete
// string lists and run through cmd/internal/listen.ParseAddresses; the answer is mapped back to tokens.
package main

import (
	"encoding/json"
	"hash/fnv"
	"math/rand"
	"os"
	"strconv"
	"strings"

	"go.miragespace.co/specter/cmd/internal/listen"
	"go.miragespace.co/specter/internal/verifkit"
)

// one concretisation = one string per token
type world struct {
	v4a, v4b, v6, host, fly, wild string
}

var worlds = []world{
	{"127.0.0.1:443", "10.0.0.1:443", "[::1]:443", "example.com:443", listen.FlyGlobalServicesHost + ":443", ":443"},
	// same host, different ports: only the whole address string identifies a duplicate
	{"127.0.0.1:80", "127.0.0.1:8080", "[::]:80", "localhost:80", listen.FlyGlobalServicesHost + ":53", ":80"},
	{"0.0.0.0:53", "0.0.0.0:5353", "[2001:db8::1]:53", listen.FlyGlobalServicesHost + ".internal:53", listen.FlyGlobalServicesHost + ":5353", ":53"},
	{"192.168.1.5:1", "192.168.1.50:1", "[fe80::1]:65535", "my-" + listen.FlyGlobalServicesHost + ":1", listen.FlyGlobalServicesHost + ":1", ":0"},
	{"255.255.255.255:443", "1.2.3.4:443", "[2001:db8:0:1::a]:443", "a.b.c.example.org:443", listen.FlyGlobalServicesHost + ":8443", ":65535"},
	{"10.1.2.3:9000", "10.1.2.3:9001", "[::2]:9000", "1.2.3.4.5:9000", listen.FlyGlobalServicesHost + ":9000", ":9000"},
	// an IPv4 address may also be written as an IPv4-mapped IPv6 literal: its family (the stack it can be bound on) is IPv4
	{"127.0.0.1:4443", "[::ffff:127.0.0.1]:4443", "[::1]:4443", "example.net:4443", listen.FlyGlobalServicesHost + ":4443", ":4443"},
	{"[::ffff:10.0.0.7]:53", "10.0.0.8:53", "[2001:db8::7]:53", "::ffff:10.0.0.7.example:53", listen.FlyGlobalServicesHost + ":53", ":5353"},
}

var spaces = []string{" ", "  ", "\t", "\n", " \t ", "\r\n"}
var blanks = []string{"", " ", "   ", "\t", " \t\n", "\n"}

func keyOf(raw []byte) int64 {
	h := fnv.New32a()
	h.Write(raw)
	return int64(h.Sum32())
}

type outcome struct {
	Err   bool       `json:"err"`
	Out   [][]string `json:"out"`            // [token, network suffix]
	Raw   []string   `json:"raw,omitempty"`  // concrete input (base | overrides), only kept for diagnostics
	Text  string     `json:"text,omitempty"` // error text
	Proto string     `json:"proto"`
}

func main() {
	reps := 4
	if len(os.Args) > 1 {
		reps, _ = strconv.Atoi(os.Args[1])
	}
	seed := verifkit.Seed()
	verifkit.EachCase(func(i int, raw json.RawMessage) {
		c := verifkit.Decode[struct{ Base, Ovr []string }](raw)
		caseKey := keyOf(raw) // seeded choices depend on the case itself, not on its position: a replayed case repeats them
		res := make([]outcome, 0, reps)
		for k := 0; k < reps; k++ {
			r := rand.New(rand.NewSource(seed*1000003 + caseKey*31 + int64(k)))
			w := worlds[0]
			if k > 0 {
				w = worlds[r.Intn(len(worlds))]
			}
			back := map[string]string{w.v4a: "v4a", w.v4b: "v4b", w.v6: "v6", w.host: "host", w.fly: "fly", w.wild: "wild"}
			pad := func(s string) string { return spaces[r.Intn(len(spaces))] + s + spaces[r.Intn(len(spaces))] }
			conc := func(tok string) string {
				var s string
				switch tok {
				case "v4a":
					s = w.v4a
				case "v4b":
					s = w.v4b
				case "v6":
					s = w.v6
				case "host":
					s = w.host
				case "fly":
					s = w.fly
				case "wild":
					s = w.wild
				case "v4ap":
					if k == 0 {
						return " " + w.v4a + " "
					}
					switch r.Intn(3) {
					case 0:
						return spaces[r.Intn(len(spaces))] + w.v4a
					case 1:
						return w.v4a + spaces[r.Intn(len(spaces))]
					}
					return pad(w.v4a)
				case "blank":
					if k == 0 {
						return ""
					}
					return blanks[r.Intn(len(blanks))]
				}
				if k > 0 && r.Intn(3) == 0 { // white space may surround any entry
					return pad(s)
				}
				return s
			}
			mk := func(toks []string) []string {
				if len(toks) == 0 && r.Intn(2) == 0 {
					return nil
				}
				out := make([]string, len(toks))
				for j, t := range toks {
					out[j] = conc(t)
				}
				return out
			}
			base, ovr := mk(c.Base), mk(c.Ovr)
			proto := []string{"tcp", "udp"}[(int(caseKey%2)+k)%2]
			o := outcome{Proto: proto, Out: [][]string{}}
			var addrs []listen.Address
			var err error
			if p := verifkit.Recover(func() { addrs, err = listen.ParseAddresses(proto, base, ovr) }); p != "" {
				o.Err, o.Text = true, "panic: "+p
			} else if err != nil {
				o.Err, o.Text = true, err.Error()
			} else {
				for _, a := range addrs {
					tok, ok := back[a.Address]
					if !ok {
						tok = "?" + a.Address
					}
					net := "?" + a.Network
					if strings.HasPrefix(a.Network, proto) {
						net = strings.TrimPrefix(a.Network, proto)
					}
					o.Out = append(o.Out, []string{tok, net})
				}
			}
			q := func(l []string) string { b, _ := json.Marshal(l); return string(b) }
			o.Raw = []string{q(base), q(ovr)}
			res = append(res, o)
		}
		verifkit.Answer(i, res)
	})
}
