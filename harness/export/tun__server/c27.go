//go:build verif

package server

// Accessors for the C27/C28/C30 drivers (injected by go build -overlay, never committed).

import (
	"context"
	"crypto/tls"
	"time"

	"go.miragespace.co/specter/spec/protocol"
	"go.miragespace.co/specter/spec/transport"
)

// VerifC28Load runs the real route cache loader and returns its classification error, the routes in
// the order the loader produced them, the TTL it asks the cache to keep the entry for, and the loader error.
func (s *Server) VerifC28Load(ctx context.Context, hostname string) (error, []*protocol.TunnelRoute, time.Duration, error) {
	ret, err := s.routeCacheLoader(ctx, hostname)
	return ret.Value.err, ret.Value.routes, ret.TTL, err
}

// VerifC27HandleProxy is the remote node's side of a proxied gateway connection.
func (s *Server) VerifC27HandleProxy(ctx context.Context, d *transport.StreamDelegate) {
	s.handleProxyConn(ctx, d)
}

func VerifC30TTL(cert *tls.Certificate, now time.Time) time.Duration {
	return computeKeylessTTL(cert, now)
}

// VerifC30Load runs the real keyless certificate loader: (result error, certificate, TTL, loader error).
func (s *Server) VerifC30Load(ctx context.Context, hostname string) (error, *tls.Certificate, time.Duration, error) {
	ret, err := s.keylessCertLoader(ctx, hostname)
	return ret.Value.err, ret.Value.cert, ret.TTL, err
}

const VerifC30Skew = keylessExpirySkew
