//go:build verif

package hashcash

// VerifyBitsC31 exposes the unexported leading-zero-bit test to the C31 driver (injected by go build -overlay, never committed).
func VerifyBitsC31(hash []byte, bits, n int) bool { return verifyBits(hash, bits, n) }
