//go:build verif

package chord

// Accessors for the verification drivers (injected by go build -overlay, never committed).

import (
	"go.miragespace.co/specter/spec/chord"
)

func (n *LocalNode) VerifState() chord.State     { return n.state.Get() }
func (n *LocalNode) VerifHistory() []chord.State { return n.state.History() }
func (n *LocalNode) VerifPred() chord.VNode      { return n.getPredecessor() }
func (n *LocalNode) VerifSurrogate() chord.VNode {
	n.surrogateMu.RLock()
	defer n.surrogateMu.RUnlock()
	return n.surrogate
}
func (n *LocalNode) VerifTrySurrogate() (chord.VNode, bool) {
	if !n.surrogateMu.TryRLock() {
		return nil, false
	}
	defer n.surrogateMu.RUnlock()
	return n.surrogate, true
}
func (n *LocalNode) VerifSucc() []chord.VNode {
	n.successorsMu.RLock()
	defer n.successorsMu.RUnlock()
	out := make([]chord.VNode, len(n.successors))
	copy(out, n.successors)
	return out
}
func (n *LocalNode) VerifFinger(k int) (v chord.VNode) {
	n.fingers[k].computeView(func(node chord.VNode) { v = node })
	return
}
func (n *LocalNode) VerifStabilize() error          { return n.stabilize() }
func (n *LocalNode) VerifCheckPred() error          { return n.checkPredecessor() }
func (n *LocalNode) VerifFixFinger() error          { return n.fixFinger() }
func (n *LocalNode) VerifFixK(k int) (bool, error)  { return n.fixK(k) }
func (n *LocalNode) VerifKV() chord.KVProvider      { return n.kv }
func (n *LocalNode) VerifStopCh() chan struct{}     { return n.stopCh }
func (n *LocalNode) VerifClosest(key uint64) chord.VNode { return n.closestPrecedingNode(key) }

// state installation (C08/C09: every reachable neighbour-pointer state)
func (n *LocalNode) VerifSetPred(v chord.VNode) {
	n.predecessorMu.Lock()
	n.predecessor = v
	n.predecessorMu.Unlock()
}
func (n *LocalNode) VerifSetSucc(v []chord.VNode) {
	n.successorsMu.Lock()
	n.succListHash.Store(n.hash(v))
	n.successors = v
	n.successorsMu.Unlock()
}
func (n *LocalNode) VerifSetFinger(k int, v chord.VNode) {
	n.fingers[k].computeUpdate(func(e *fingerEntry) { e.node = v })
}
func (n *LocalNode) VerifSetState(s chord.State) { n.state.Set(s) }
func (n *LocalNode) VerifSetSurrogate(v chord.VNode) {
	n.surrogateMu.Lock()
	n.surrogate = v
	n.surrogateMu.Unlock()
}

// lifecycle word (C13)
type VerifNodeState struct{ s *nodeState }

func VerifNewNodeState(initial chord.State) *VerifNodeState {
	return &VerifNodeState{s: newNodeState(initial)}
}
func (v *VerifNodeState) Transition(exp, nxt chord.State) (chord.State, bool) {
	return v.s.Transition(exp, nxt)
}
func (v *VerifNodeState) Set(val chord.State)      { v.s.Set(val) }
func (v *VerifNodeState) Get() chord.State         { return v.s.Get() }
func (v *VerifNodeState) History() []chord.State   { return v.s.History() }
