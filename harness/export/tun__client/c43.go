//go:build verif

package client

// Accessors for the verification driver of C43/C44/C45/C50 (harness/drv/client).  Injected by
// go build -overlay as tun/client/zz_verif_c43.go, never committed.

import (
	"context"
	"net"
	"sort"

	"go.miragespace.co/specter/spec/protocol"
	"go.miragespace.co/specter/spec/rpc"

	"github.com/zhangyunhao116/skipmap"
)

// VerifMemConfig builds a Config the way NewConfig does, without reading a file (so that lists the
// validator rejects, e.g. a tunnel without a target, can be handed to SyncConfigTunnels).
func VerifMemConfig(path, apex, cert, key string, tunnels []Tunnel) *Config {
	cfg := &Config{
		path:        path,
		router:      skipmap.NewString[route](),
		Version:     2,
		Apex:        apex,
		Certificate: cert,
		PrivKey:     key,
		Tunnels:     tunnels,
	}
	cfg.validate()
	return cfg
}

func (c *Config) VerifWriteFile() error { return c.writeFile() }
func (c *Config) VerifPath() string     { return c.path }

func (c *Client) VerifSetTunnelClient(tc rpc.TunnelClient) { c.tunnelClient = tc }
func (c *Client) VerifAddConnection(n *protocol.Node)      { c.connections.Store(n.GetAddress(), n) }
func (c *Client) VerifReload(ctx context.Context)          { c.doReload(ctx) }
func (c *Client) VerifHandle(ctx context.Context, link *protocol.Link, conn net.Conn) error {
	return c.handleIncomingDelegation(ctx, link, conn)
}

// VerifResetTunnels puts the client back into the state of a freshly constructed one with the given
// tunnel list (NewClient allocates a certificate cache that is too costly to rebuild per case).
func (c *Client) VerifResetTunnels(tunnels []Tunnel) {
	c.configMu.Lock()
	defer c.configMu.Unlock()
	c.closeOutdatedProxies(c.Configuration.Tunnels...)
	c.Configuration.Tunnels = tunnels
	c.Configuration.router = skipmap.NewString[route]()
	c.Configuration.validate()
	c.connections = skipmap.NewString[*protocol.Node]()
}

// VerifProxyHosts lists the hostnames that have a cached reverse proxy.
func (c *Client) VerifProxyHosts() []string {
	out := []string{}
	c.proxies.Range(func(k string, _ *httpProxy) bool { out = append(out, k); return true })
	sort.Strings(out)
	return out
}

// VerifRoutes lists hostname -> target of the router.
func (c *Client) VerifRoutes() map[string]string {
	out := map[string]string{}
	c.Configuration.router.Range(func(k string, r route) bool {
		if r.parsed != nil {
			out[k] = r.parsed.String()
		} else {
			out[k] = ""
		}
		return true
	})
	return out
}
