//go:build verif

package bufconn

import "net"

// VerifLockReadPipe locks the mutex of the pipe c reads from (as a goroutine that is inside one of the pipe's
// critical sections would) and returns the function that releases it.  Used by drv/pipes (C39) to hold a
// SetReadDeadline call and a firing deadline timer at the mutex in a chosen order.
func VerifLockReadPipe(c net.Conn) (unlock func()) {
	p := c.(*conn).Reader.(*pipe)
	p.mu.Lock()
	return p.mu.Unlock
}
