//go:build verif

package overlay

// Accessors for the C41 driver (injected by go build -overlay, never committed).

import (
	"net"

	"go.miragespace.co/specter/spec/protocol"

	"github.com/quic-go/quic-go"
)

// VerifCached returns the cache entry for a peer: the connection, whether its direction field is
// "outgoing", and whether an entry exists.
func (t *QUIC) VerifCached(peer *protocol.Node) (q *quic.Conn, outgoing bool, ok bool) {
	c, ok := t.cachedConnections.Load(t.makeCachedKey(peer))
	if !ok {
		return nil, false, false
	}
	return c.quic, c.direction == directionOutgoing, true
}

// VerifReapPeer runs reapPeer (what the connection watcher started by handlePeer runs).
func (t *QUIC) VerifReapPeer(q *quic.Conn, peer *protocol.Node) { t.reapPeer(q, peer) }

// VerifConnOf returns the QUIC connection behind a stream returned by DialStream.
func VerifConnOf(c net.Conn) *quic.Conn {
	if qc, ok := c.(*quicConn); ok {
		return qc.q
	}
	return nil
}

const (
	VerifDirIncoming = uint64(directionIncoming)
	VerifDirOutgoing = uint64(directionOutgoing)
)

// VerifQuicConfig is the QUIC configuration the transports use (for the scripted peer of the cell binding).
func VerifQuicConfig() *quic.Config { return quicConfig.Clone() }
