//go:build verif

package sqlite3

// Accessors for the C24 driver (injected by go build -overlay, never committed).

type VerifMigration struct {
	Version int
	Name    string
	SQL     string
}

// VerifMigrations returns the embedded migrations in the order the code applies them.
func VerifMigrations() ([]VerifMigration, error) {
	ms, err := loadMigrations()
	if err != nil {
		return nil, err
	}
	out := make([]VerifMigration, 0, len(ms))
	for _, m := range ms {
		out = append(out, VerifMigration{Version: m.version, Name: m.name, SQL: m.sql})
	}
	return out, nil
}
