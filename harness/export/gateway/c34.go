//go:build verif

package gateway

// Accessors for the verification driver drv/gateway (C34-C37); injected by go build -overlay, never committed.
// They only hand out what gateway.New assembled (handlers, unexported methods); no logic lives here.

import (
	"context"
	"net/http"
)

const (
	VerifHeaderNodeAddress = internalProxyNodeAddress
	VerifHeaderForwarded   = internalProxyForwarded
)

// VerifEndpointsDoc is the body of the catch-all helper under the internal prefix.
func VerifEndpointsDoc() string { return endpointsDoc }

func (g *Gateway) VerifExtractHostname(host string) (string, error) { return g.extractHostname(host) }

func (g *Gateway) VerifParseAddr(addr string) (string, string, error) { return g.parseAddr(addr) }

// VerifProxyHandler is the handler New installed on the HTTP/1.1 + HTTP/2 tunnel server.
func (g *Gateway) VerifProxyHandler() http.Handler { return g.h2TunnelServer.Handler }

// VerifH3ProxyHandler is the handler New installed on the HTTP/3 tunnel server.
func (g *Gateway) VerifH3ProxyHandler() http.Handler { return g.h3TunnelServer.Handler }

// VerifApexHandler is the handler New installed on the apex servers (nil without root domains).
func (g *Gateway) VerifApexHandler() http.Handler {
	if g.tcpApexServer == nil {
		return nil
	}
	return g.tcpApexServer.Handler
}

// VerifHTTPRouter is the plain-HTTP handler (CONNECT + redirect).
func (g *Gateway) VerifHTTPRouter() http.Handler { return g.httpServer.Handler }

func (g *Gateway) VerifErrorHandler(w http.ResponseWriter, r *http.Request, e error) {
	g.errorHandler(w, r, e)
}

func (g *Gateway) VerifForwardTCP(ctx context.Context, host string, remote string, conn DeadlineReadWriteCloser) error {
	return g.forwardTCP(ctx, host, remote, conn)
}
