//go:build verif

package acme

// Accessor for the C48 driver (injected by go build -overlay, never committed).
func VerifC48DnsKey(label string) string { return dnsKeyName(label) }
