//go:build verif

package acme

// Accessors for the C49 driver (injected by go build -overlay, never committed).

import "sync/atomic"

// VerifAbandon makes the instance behave like a holder that died: the renewal goroutine is stopped and the
// lease is NOT released.  Returns the last token (for the in-memory KV the token is the expiry in UnixNano).
func (c *ChordStorage) VerifAbandon(key string) (uint64, bool) {
	lease, ok := c.leaseToken.LoadAndDelete(key)
	if !ok {
		return 0, false
	}
	lease.cancelFn()
	lease.Wait()
	return atomic.LoadUint64(&lease.token), true
}

// VerifToken returns the current token of a held lock.
func (c *ChordStorage) VerifToken(key string) (uint64, bool) {
	lease, ok := c.leaseToken.Load(key)
	if !ok {
		return 0, false
	}
	return atomic.LoadUint64(&lease.token), true
}

func VerifKeyName(key string) string { return kvKeyName(key) }
